"""C04 — latency, service time and processing time mean what the docs say (DESIGN.md section 4, C04)."""
from __future__ import annotations

import ast

from sa import pat, source
from sa.cfg import cfg_of, conjuncts, guards, negate
from sa.minieval import CannotEval, Record, ev
from sa.classes import is_logging_stmt
from sa.source import AnchorMissing, arg_of, bind_args, dotted, inline, is_self_attr, last_attr, local_defs, params_of, short, u, walk_body
from sa.sym import comparison, parse_expr, rat_equal


def inline_node(e, defs):
    return source.inline_node(e, defs, no_calls=True)

_D = "esrally/driver/driver.py"
_C = "esrally/client/context.py"
_A = "esrally/client/asynchronous.py"

EXPECTED_FLOW = {  # value of the request loop (label = its name in the frozen source; located by ROLE, see flow_roles)  ->  Sample attribute it must land in
    "self.task": "task",
    "self.client_id": "client_id",
    "sample_type": "sample_type",
    "request_meta_data": "request_meta_data",
    "absolute_processing_start": "absolute_time",
    "request_start": "request_start",
    "latency": "latency",
    "service_time": "service_time",
    "processing_time": "processing_time",
    "throughput": "throughput",
    "total_ops": "total_ops",
    "total_ops_unit": "total_ops_unit",
    "time_period": "time_period",
    "progress": "percent_completed",
    "request_meta_data.pop('dependent_timing', None)": "_dependent_timing",
}


def request_loop(drv):
    ex = drv.cls("AsyncExecutor")
    call = drv.methods(ex).get("__call__")
    if call is None:
        raise AnchorMissing("AsyncExecutor.__call__")
    loops = [n for n in walk_body(call) if isinstance(n, ast.AsyncFor)]
    if not loops:
        raise AnchorMissing("request loop (async for over the schedule)")
    return call, loops[0]


def _root(e, defs):
    """Defining expression of a single-assignment local (pure alias chains `x = y` followed); any other expression is returned as it is."""
    hops = 0
    while isinstance(e, ast.Name) and e.id in defs and hops < 10:
        e = defs[e.id]
        hops += 1
    return e


def unpacked_result(run_call):
    """Names the statement around the runner invocation unpacks the result triple into, by position; None unless it is a plain tuple of names."""
    asg = source.enclosing_stmt(run_call)
    if isinstance(asg, ast.Assign) and len(asg.targets) == 1 and isinstance(asg.targets[0], ast.Name):
        # kept as one value first: the single statement of the function that unpacks that local
        fn = source.enclosing_func(run_call)
        later = [n for n in (ast.walk(fn) if fn is not None else ()) if isinstance(n, ast.Assign) and isinstance(n.value, ast.Name) and n.value.id == asg.targets[0].id
                 and len(n.targets) == 1 and isinstance(n.targets[0], ast.Tuple)]
        stores = [n for n in (ast.walk(fn) if fn is not None else ()) if isinstance(n, ast.Name) and isinstance(n.ctx, ast.Store) and n.id == asg.targets[0].id]
        asg = later[0] if len(later) == 1 and len(stores) == 1 else asg
    if isinstance(asg, ast.Assign) and len(asg.targets) == 1 and isinstance(asg.targets[0], ast.Tuple) and all(isinstance(x, ast.Name) for x in asg.targets[0].elts):
        return [x.id for x in asg.targets[0].elts]
    return None


# ---- local helpers that make the rules independent of how the code is cut into statements and functions (candidates for sa/: nothing here is specific to C04) ----------------------


def _arm_value(stmts, name):
    """(value, number of assignments) if the arm is - logging and docstrings aside - the single assignment `name = value` or a nested if/else chain of such arms; else (None, 0)"""
    stmts = [s for s in stmts if not is_logging_stmt(s) and not (isinstance(s, ast.Expr) and isinstance(s.value, ast.Constant))]
    if len(stmts) != 1:
        return None, 0
    s = stmts[0]
    if isinstance(s, ast.Assign) and len(s.targets) == 1 and isinstance(s.targets[0], ast.Name) and s.targets[0].id == name:
        return s.value, 1
    if isinstance(s, ast.If) and s.orelse and not getattr(s, "_synthetic_arm", None):
        return _if_value(s, name)
    return None, 0


def _if_value(s, name):
    b, nb = _arm_value(s.body, name)
    o, no = _arm_value(s.orelse, name)
    if b is None or o is None:
        return None, 0
    return parse_expr(f"({u(b)}) if ({u(s.test)}) else ({u(o)})"), nb + no


def cond_defs(func):
    """name -> conditional expression for locals that are bound ONLY in the arms of one if / elif / else chain, every arm being the single assignment to that local:
    `if c: x = a` / `else: x = b` reads like `x = a if c else b` (and an if-chain like a nested conditional expression). The synthesized expression hangs below the `if`
    statement (ancestors work), it is never handed to the CFG."""
    plain, other = {}, {}
    for n in walk_body(func):
        if isinstance(n, ast.Assign):
            for t in n.targets:
                if isinstance(t, ast.Name) and len(n.targets) == 1:
                    plain[t.id] = plain.get(t.id, 0) + 1
                else:
                    for x in ast.walk(t):
                        if isinstance(x, ast.Name) and isinstance(x.ctx, ast.Store):
                            other[x.id] = other.get(x.id, 0) + 1
        elif isinstance(n, (ast.AugAssign, ast.AnnAssign, ast.NamedExpr)) and isinstance(n.target, ast.Name):
            other[n.target.id] = other.get(n.target.id, 0) + 1
        elif isinstance(n, (ast.For, ast.AsyncFor, ast.comprehension)):
            for t in ast.walk(n.target):
                if isinstance(t, ast.Name):
                    other[t.id] = other.get(t.id, 0) + 1
        elif isinstance(n, (ast.With, ast.AsyncWith)):
            for it in n.items:
                for t in ast.walk(it.optional_vars) if it.optional_vars is not None else ():
                    if isinstance(t, ast.Name):
                        other[t.id] = other.get(t.id, 0) + 1
    cands = {k for k, c in plain.items() if c >= 2 and not other.get(k)}
    if not cands:
        return {}
    params = set(params_of(func)) | {a.arg for a in func.args.kwonlyargs}
    out = {}
    for s in walk_body(func):
        if not (isinstance(s, ast.If) and s.orelse and not getattr(s, "_synthetic_arm", None)):
            continue
        for k in cands - set(out) - params:
            e, n = _if_value(s, k)
            if e is not None and n == plain[k]:
                source.set_parents(e)
                e._parent = s
                out[k] = e
    return out


def all_defs(func):
    """single-assignment locals, the locals defined by one if/else chain (cond_defs) and the locals whose only binding is one assignment expression (`(x := e)`)"""
    d = dict(local_defs(func))
    d.update(cond_defs(func))
    stores, walrus = {}, {}
    for n in walk_body(func):
        if isinstance(n, ast.Name) and isinstance(n.ctx, ast.Store):
            stores[n.id] = stores.get(n.id, 0) + 1
        if isinstance(n, ast.NamedExpr) and isinstance(n.target, ast.Name):
            walrus[n.target.id] = n.value
    d.update({k: v for k, v in walrus.items() if stores.get(k) == 1 and k not in d and k not in params_of(func)})
    for n in walk_body(func):  # a, b = x, y   binds a to x and b to y
        if isinstance(n, ast.Assign) and len(n.targets) == 1 and isinstance(n.targets[0], ast.Tuple) and isinstance(n.value, ast.Tuple) and len(n.value.elts) == len(n.targets[0].elts):
            for t_, v in zip(n.targets[0].elts, n.value.elts):
                if isinstance(t_, ast.Name) and stores.get(t_.id) == 1 and t_.id not in d and t_.id not in params_of(func) and not isinstance(v, ast.Starred):
                    d[t_.id] = v
    return d


def _ret_value(stmts):
    """the value a statement list returns if it is - docstring and logging aside - `return e` or an if / else both arms of which are of that kind (read as a conditional
    expression; a guard clause `if c: return a` followed by `return b` has been given that shape by the normaliser); else None"""
    stmts = [s for s in stmts if not is_logging_stmt(s) and not (isinstance(s, ast.Expr) and isinstance(s.value, ast.Constant))]
    if len(stmts) != 1:
        return None
    s = stmts[0]
    if isinstance(s, ast.Return):
        return s.value
    if isinstance(s, ast.If) and s.orelse:
        b, o = _ret_value(s.body), _ret_value(s.orelse)
        if b is not None and o is not None:
            return parse_expr(f"({u(b)}) if ({u(s.test)}) else ({u(o)})")
    return None


def helper_value(e, sc, mod):
    """if e is a call of a helper (method of the class / function of the module) whose body only computes and returns one expression - possibly choosing it by if / else -,
    that expression over the names of the outermost caller (lift); else None"""
    c = e.value if isinstance(e, ast.Await) else e
    f = resolve_callee(c, mod, sc.defs) if isinstance(c, ast.Call) else None
    if f is None or f is sc.func:
        return None
    # leading single assignments are locals of the helper (folded by lift), the rest must be the returned expression
    body = list(f.body)
    while body and (isinstance(body[0], ast.Assign) and len(body[0].targets) == 1 and isinstance(body[0].targets[0], ast.Name)
                    or is_logging_stmt(body[0]) or (isinstance(body[0], ast.Expr) and isinstance(body[0].value, ast.Constant))):
        body.pop(0)
    r = _ret_value(body)
    if r is None:
        return None
    hs = _Scope(f, all_defs(f), call=c, outer=sc)
    # the returned expression is written in the helper: occurrences of helper locals are folded, parameters become the caller's arguments
    return lift(r, hs)


def resolve_callee(c, mod, defs=None):
    """definition of the function a call refers to when it is a method of the class the call is written in (self.m / cls.m / <Class>.m, looked up in that class and its bases
    within the module) or a function of the same module - directly or through a local alias (`f = self.m` hoisted out of a loop); None for anything else."""
    f = _root(c.func, defs or {}) if isinstance(c.func, ast.Name) else c.func
    if isinstance(f, ast.Name):
        n = mod.index().get(f.id)
        return n if isinstance(n, source.FUNC_TYPES) else None
    if isinstance(f, ast.Attribute) and isinstance(f.value, ast.Name):
        k = source.enclosing_class(c)
        if k is not None and f.value.id in ("self", "cls", k.name):
            todo, seen = [k], set()
            while todo:
                k_ = todo.pop(0)
                if k_.name in seen:
                    continue
                seen.add(k_.name)
                m = mod.methods(k_).get(f.attr)
                if m is not None:
                    return m
                for b in k_.bases:
                    bn = mod.index().get(last_attr(b) or "")
                    if isinstance(bn, ast.ClassDef):
                        todo.append(bn)
    return None


class _Scope:
    """home of an expression: the function it is written in with its locals (all_defs) and - for a helper entered through a call - the binding of its parameters to the argument
    expressions, which are written in the scope of the caller (`outer`)"""

    def __init__(self, func, defs, call=None, outer=None):
        self.func, self.defs, self.call, self.outer = func, defs, call, outer
        self.bind = {}
        if call is not None:
            stored = {n.id for n in ast.walk(func) if isinstance(n, ast.Name) and isinstance(n.ctx, ast.Store)}
            self.bind = {p: a for p, a in bind_args(call, func).items() if p not in stored}  # a re-bound parameter no longer is the caller's value

    @property
    def root(self):
        return self if self.outer is None else self.outer.root


def _fold(e, defs, hook, sc, depth=0):
    e = hook(e, sc) if hook is not None else source.clone(e)  # a hook returns a fresh copy

    class T(ast.NodeTransformer):
        def visit_Name(self, n):
            if isinstance(n.ctx, ast.Load) and n.id in defs and depth < 10:
                d = defs[n.id]
                if isinstance(d, ast.Name) and d.id.startswith("__arg_"):
                    return ast.Name(id=d.id, ctx=ast.Load())
                if any(isinstance(x, (ast.Call, ast.Await)) for x in ast.walk(d)):
                    return n
                return _fold(d, defs, hook, sc, depth + 1)
            return n

    return T().visit(e)


def lift(e, sc, hook=None, keep=()):
    """fresh copy of e (written in scope sc) over the names of the outermost caller: locals are folded (a local whose definition contains a call stays an opaque name, two clock
    reads are not one value), parameters of a helper are replaced by the caller's argument expressions. hook(expr, scope) -> fresh copy may rewrite every expression of a
    scope before it is folded (e.g. put a representative value in the place of a quantity); names in `keep` are left alone in sc."""
    defs = {k: v for k, v in sc.defs.items() if k not in keep}
    if sc.outer is None:
        return _fold(e, defs, hook, sc)
    ph = {p: f"__arg_{i}__" for i, p in enumerate(sc.bind) if p not in keep}
    local = {k: v for k, v in defs.items() if k not in ph}
    local.update({p: ast.Name(id=nm, ctx=ast.Load()) for p, nm in ph.items()})
    e1 = _fold(e, local, hook, sc)
    used = {n.id for n in ast.walk(e1) if isinstance(n, ast.Name)}
    args = {nm: lift(sc.bind[p], sc.outer, hook) for p, nm in ph.items() if nm in used}
    return source.inline_node(e1, args, no_calls=False) if args else e1


# ---- the request of an iteration, by role (O4.1 - O4.6) --------------------------------------------------------------------------------------------------------------------------------
# One iteration issues its request where the runner is invoked inside `with <client>.new_request_context() [as ctx]:`. That statement is written in the request loop - or in a
# helper (coroutine method of the executor / coroutine function of the module) that the loop AWAITS DIRECTLY (same task, same contextvars context; an extracted
# `_execute_request(runner, params)` that returns the result triple together with the context's start / end). In the second shape the statement of the loop that awaits the
# helper takes the place of the `with` in the control-flow graph of the loop, and the locals of the loop that the helper's result binds to formulas over the request context
# (`request_start` <- `ctx.request_start`) read like those formulas. Likewise the runner invocation may be written in a helper awaited inside the `with`, and the result triple is
# followed by POSITION through the return tuples of such helpers into the locals of the loop. Names of helpers, parameters and locals play no role.


def _stored_names(func):
    return {n.id for n in ast.walk(func) if isinstance(n, ast.Name) and isinstance(n.ctx, ast.Store)}


def _all_params(func):
    a = func.args
    return {x.arg for x in a.posonlyargs + a.args + a.kwonlyargs} | ({a.vararg.arg} if a.vararg else set()) | ({a.kwarg.arg} if a.kwarg else set())


def awaited_helpers(nodes, sc, mod):
    """[(await node, scope of the helper entered through it)] for the nodes that directly await a coroutine method of the class / coroutine function of the module"""
    out = []
    for n in nodes:
        if isinstance(n, ast.Await) and isinstance(n.value, ast.Call):
            f = resolve_callee(n.value, mod, sc.defs)
            if isinstance(f, ast.AsyncFunctionDef) and f is not sc.func:
                out.append((n, _Scope(f, all_defs(f), call=n.value, outer=sc)))
    return out


def _context_item(w, sc):
    """the item of a `with` statement that enters a fresh request context of the client (the callee, read over the names of the outermost caller, is `….new_request_context`)"""
    for i in (w.items if isinstance(w, ast.With) else ()):
        if "new_request_context" in u(lift(i.context_expr, sc)):
            return i
    return None


def helper_expr(e, hs, allowed=()):
    """e - written in the helper of scope hs - over the names of the caller (locals of the helper folded, parameters replaced by the caller's arguments); None if it depends on a
    local of the helper that is not a plain formula (bound by a call, by an unpacking or more than once) other than the names in `allowed`"""
    own = _stored_names(hs.func) | _all_params(hs.func)
    folded = _fold(e, {k: v for k, v in hs.defs.items() if k not in hs.bind}, None, hs)
    if any(isinstance(n, ast.Name) and n.id in own and n.id not in allowed and n.id not in hs.bind for n in ast.walk(folded)):
        return None
    return lift(e, hs)


def returned_value(hs):
    """the value of the helper's single `return` statement (None: no or several returns)"""
    rets = [r for r in walk_body(hs.func) if isinstance(r, ast.Return)]
    return rets[0].value if len(rets) == 1 else None


def returned_parts(aw, hs):
    """[(local of the caller, expression the helper returns for it - written in the helper, position)] for the statement `a, b, .. = await helper(..)` around the await node
    aw (or `r = await helper(..)` with `r` unpacked by the one later statement `a, b, .. = r`, or bound as it is when the helper does not return a tuple display): the
    helper's single `return` read by position ([] when the statement or the return has another shape)"""
    stmt = source.enclosing_stmt(aw)
    ret = returned_value(hs)
    if ret is None or not (isinstance(stmt, ast.Assign) and len(stmt.targets) == 1 and stmt.value is aw):
        return []
    rv = _root(ret, hs.defs)
    tgt = stmt.targets[0]
    if isinstance(tgt, ast.Name) and isinstance(rv, ast.Tuple):
        fn = source.enclosing_func(stmt)
        later = [n for n in ast.walk(fn) if isinstance(n, ast.Assign) and isinstance(n.value, ast.Name) and n.value.id == tgt.id and len(n.targets) == 1 and isinstance(n.targets[0], ast.Tuple)]
        stores = [n for n in ast.walk(fn) if isinstance(n, ast.Name) and isinstance(n.ctx, ast.Store) and n.id == tgt.id]
        if len(later) != 1 or len(stores) != 1:
            return []
        tgt = later[0].targets[0]
    if isinstance(tgt, ast.Name):
        return [(tgt.id, rv, 0)]
    if isinstance(tgt, ast.Tuple) and isinstance(rv, ast.Tuple) and all(isinstance(t, ast.Name) for t in tgt.elts):
        elts = list(rv.elts)
        stars = [i for i, x in enumerate(elts) if isinstance(x, ast.Starred)]
        if len(stars) == 1 and len(tgt.elts) >= len(elts) - 1:
            # `return (*result, start, end)`: the starred value fills the positions that the other elements leave; position j of it reads `<value>[j]` (marked _star)
            k = len(tgt.elts) - (len(elts) - 1)
            filled = []
            for j in range(k):
                x = ast.Subscript(value=elts[stars[0]].value, slice=ast.Constant(value=j), ctx=ast.Load())
                x._star = (elts[stars[0]].value, j, k)
                filled.append(x)
            elts = elts[:stars[0]] + filled + elts[stars[0] + 1:]
        if len(tgt.elts) == len(elts) and not any(isinstance(x, ast.Starred) for x in elts):
            return [(t.id, x, i) for i, (t, x) in enumerate(zip(tgt.elts, elts))]
    return []


def helper_result_defs(sc, mod, skip=()):
    """{local of the function of scope sc -> formula over the names of that function} for the locals that a statement `a, b, .. = [await] helper(..)` binds, by position, to
    plain formulas which the helper (method of the class / function of the module, with a single `return` of a tuple display) computes from its parameters: an extracted
    `_spans(start, end, ..)` that returns several differences at once reads like those differences. A position whose value depends on a call made in the helper (a clock read,
    a request) is left alone: it stays the opaque result of that call."""
    stores, out = {}, {}
    for n in ast.walk(sc.func):
        if isinstance(n, ast.Name) and isinstance(n.ctx, ast.Store):
            stores[n.id] = stores.get(n.id, 0) + 1
    for n in walk_body(sc.func):
        if not (isinstance(n, ast.Assign) and len(n.targets) == 1) or any(n is x for x in skip):
            continue
        c = n.value.value if isinstance(n.value, ast.Await) else n.value
        f = resolve_callee(c, mod, sc.defs) if isinstance(c, ast.Call) else None
        if f is None or f is sc.func or isinstance(f, ast.AsyncFunctionDef) != isinstance(n.value, ast.Await):
            continue
        hs = _Scope(f, all_defs(f), call=c, outer=sc)
        same_object = isinstance(c.func, ast.Attribute) and isinstance(c.func.value, ast.Name) and c.func.value.id == "self" and params_of(f)[:1] == ["self"]
        for name, e, _ in returned_parts(n.value, hs):
            if stores.get(name) != 1 or name in sc.defs or name in _all_params(sc.func):
                continue
            x = helper_expr(e, hs, allowed=("self",) if same_object else ())
            if x is not None:
                out[name] = _hang(x, n)
    return out


def _hang(x, stmt):
    """the synthesized expression x hangs below the statement that binds it (positions, ancestors and the module work); it is never handed to the CFG"""
    x = ast.fix_missing_locations(ast.copy_location(x, stmt))
    source.set_parents(x)
    x._parent = stmt
    x._module = getattr(stmt, "_module", None)
    return x


class _Request:
    """stmt: the statement of the loop's function that performs the request (the `with` itself, or the statement that awaits the helper the `with` is written in) - its place
    in the control-flow graph of the loop; with_: the `with` statement; scope: the function the `with` is written in (the loop's, or the helper's entered through `stmt`);
    ctxvar: the name under which the formulas of the loop refer to the request context (None: not bound); defs: locals of the loop bound by the helper's result to formulas
    over the request context, or to ONE reading of a clock taken by the helper ({} when the `with` is written in the loop)"""

    def __init__(self, stmt, with_, scope, ctxvar, defs, clocks=None):
        self.stmt, self.with_, self.scope, self.ctxvar, self.defs = stmt, with_, scope, ctxvar, defs
        self.clocks = clocks or {}  # local of the loop -> the assignment of the helper that reads a clock into the single-assignment local which the helper returns for it

    @property
    def in_helper(self):
        return self.scope.outer is not None


def locate_request(L, sc, mod):
    """the request of an iteration of the loop L (scope sc), see _Request; AnchorMissing if neither the loop nor a helper it awaits directly enters a request context"""
    direct = [(n, _context_item(n, sc)) for n in ast.walk(L) if isinstance(n, ast.With)]
    direct = [(n, i) for n, i in direct if i is not None]
    if direct:
        w, item = direct[0]
        return _Request(w, w, sc, item.optional_vars.id if isinstance(item.optional_vars, ast.Name) else None, {})
    found = []
    for aw, hs in awaited_helpers(ast.walk(L), sc, mod):
        for w in walk_body(hs.func):
            item = _context_item(w, hs)
            if item is not None:
                found.append((aw, hs, w, item))
                break
    if len(found) != 1:
        raise AnchorMissing("request context `with ... new_request_context()` in the request loop" + (
            "" if not found else f" ({len(found)} helpers awaited from the loop enter a request context)") + " (directly or in a helper the loop awaits)")
    aw, hs, w, item = found[0]
    stmt = source.enclosing_stmt(aw)
    if not (isinstance(stmt, (ast.Assign, ast.Expr)) and stmt.value is aw):
        raise AnchorMissing(f"the statement of the request loop that awaits the helper {hs.func.name} (which enters the request context) is not a plain assignment of its result")
    local = item.optional_vars.id if isinstance(item.optional_vars, ast.Name) else None
    taken = _stored_names(sc.func) | _all_params(sc.func)
    ctxvar = local if local is None or local not in taken else f"__{local}__"
    extra, clocks, stores = {}, {}, {}
    for n in ast.walk(sc.func):
        if isinstance(n, ast.Name) and isinstance(n.ctx, ast.Store):
            stores[n.id] = stores.get(n.id, 0) + 1
    for name, e, _ in returned_parts(aw, hs):
        if stores.get(name) != 1 or name in sc.defs or name in _all_params(sc.func):
            continue
        d = hs.defs.get(e.id) if isinstance(e, ast.Name) else None
        if d is not None and _clock_name(d) in ("time.perf_counter", "time.time") and not d.args and not d.keywords and isinstance(source.enclosing_stmt(d), ast.Assign):
            # one reading of a clock taken by the helper (a time stamp of the request moved along with it): the local of the loop reads like that clock read; WHERE it is
            # taken - relative to the request context - is decided in the helper (req.clocks)
            extra[name] = _hang(parse_expr(_clock_name(d) + "()"), stmt)
            clocks[name] = source.enclosing_stmt(d)
    if local is not None:
        for name, e, _ in returned_parts(aw, hs):
            if stores.get(name) != 1 or name in sc.defs or name in _all_params(sc.func) or name in extra:
                continue
            x = helper_expr(e, hs, allowed=(local,))
            if x is None or not any(isinstance(n, ast.Name) and n.id == local for n in ast.walk(x)):
                continue  # only values of the request context are of interest here; the result triple stays what it is: the opaque result of the runner

            class R(ast.NodeTransformer):
                def visit_Name(self, n):
                    return ast.Name(id=ctxvar, ctx=n.ctx) if n.id == local else n

            extra[name] = _hang(R().visit(x), stmt)
    return _Request(stmt, w, hs, ctxvar, extra, clocks)


def runner_calls(req, L, mod):
    """[(invocation of the runner `execute_single(..)`, node of the function the request context is written in through which it is reached, hops)]: the calls written in that
    function (in the loop when the `with` is written there), or - if there is none - in a helper awaited from it. hops = [(await node, scope of the helper)] by which the
    loop's function reaches the invocation, innermost first."""
    sc = req.scope
    region = list(walk_body(sc.func)) if req.in_helper else list(ast.walk(L))
    up = [(req.stmt.value, sc)] if req.in_helper else []

    def is_run(n, defs):
        return isinstance(n, ast.Call) and last_attr(_root(n.func, defs) if isinstance(n.func, ast.Name) else n.func) == "execute_single"

    out = [(n, n, list(up)) for n in region if is_run(n, sc.defs)]
    if out:
        return out
    for aw, hs in awaited_helpers(region, sc, mod):
        out += [(n, aw, [(aw, hs)] + up) for n in walk_body(hs.func) if is_run(n, hs.defs)]
    return out


def _triple_names_in(fn, held):
    """names of the three locals of fn the runner's result is unpacked into, by position. held: the call / await node whose value is the result, or the name of the local
    of fn that holds it as one value; None unless it is unpacked by one assignment to a plain tuple of three names"""
    if isinstance(held, str):
        stores = [n for n in ast.walk(fn) if isinstance(n, ast.Name) and isinstance(n.ctx, ast.Store) and n.id == held]
        later = [n for n in ast.walk(fn) if isinstance(n, ast.Assign) and isinstance(n.value, ast.Name) and n.value.id == held and len(n.targets) == 1 and isinstance(n.targets[0], ast.Tuple)]
        if len(stores) != 1 or len(later) != 1 or not all(isinstance(x, ast.Name) for x in later[0].targets[0].elts):
            return None
        got = [x.id for x in later[0].targets[0].elts]
    else:
        got = unpacked_result(held)
    return got if got is not None and len(got) == 3 else None


def result_names(run_call, hops):
    """names of the locals of the loop's function that hold (number of operations, unit, meta data) of the runner invocation, by position of the result triple: the unpacking
    next to the invocation, followed by position through the return tuples of the helpers (hops, innermost first) by which the loop's function reaches it. None if the triple
    cannot be followed in this shape."""
    held = run_call  # in the function at hand: node whose value is the whole result | name of a local holding it as one value | list of the three names
    fn = source.enclosing_func(run_call)
    for aw, hs in hops:
        ret = returned_value(hs)
        if ret is None:
            return None

        def whole(e):
            r = _root(e, hs.defs)
            if isinstance(held, str):
                return isinstance(r, ast.Name) and r.id == held
            return (r.value if isinstance(r, ast.Await) else r) is (held.value if isinstance(held, ast.Await) else held)

        if not isinstance(held, list):
            names = _triple_names_in(hs.func, held)
            if names is not None:
                held = names
        fn = hs.outer.func
        if not isinstance(held, list) and whole(ret):
            held = aw  # handed on as it is (`return await execute_single(..)`): the value of the await in the caller is the whole result
            continue
        parts = returned_parts(aw, hs)
        if not parts:
            return None
        if isinstance(held, list):
            out = []
            for nm in held:
                at = [t for t, e, _ in parts if isinstance(_root(e, hs.defs), ast.Name) and _root(e, hs.defs).id == nm]
                if len(at) != 1:
                    return None
                out.append(at[0])
            held = out
        else:
            at = [t for t, e, _ in parts if whole(e)]  # one position of the helper's return tuple carries the result as one value
            spread = sorted((e._star[1], t) for t, e, _ in parts if getattr(e, "_star", None) is not None and e._star[2] == 3 and whole(e._star[0]))  # or it is spread: `*result`
            if len(at) == 1 and not spread:
                held = at[0]
            elif len(spread) == 3 and not at:
                held = [t for _, t in spread]
            else:
                return None
    if not isinstance(held, list):
        held = _triple_names_in(fn, held)
    return held


# ---- waits of the request loop (O4.3, O4.2) ------------------------------------------------------------------------------------------------------------------------------------------
# A wait is `await asyncio.sleep(amount)` written in the loop or in a helper (method of the executor / function of the module) awaited from it. Whether it is the documented
# sleep-until is decided on VALUES: the guards that control it - in the helper and around the call - and its amount are evaluated for representative (scheduled time, T - now)
# pairs; the spelling of the tests, their nesting, guard clauses and the cut into functions do not matter.

_WAIT_GRID = ((0, -3.0), (0, 0.0), (7.0, -3.0), (7.0, 0.0), (7.0, 1e-07), (7.0, 0.0004), (7.0, 2.5))  # (scheduled time, T - now); a request scheduled at 0 is never ahead of time


def wait_sites(L, root_sc, mod, depth=2):
    """(sites, opaque): sites = [(the `await asyncio.sleep(..)`, scope it is written in, await node of the loop through which it is reached)] for every sleep in the request
    loop or in a helper awaited from it (followed `depth` calls deep); opaque = [(await, its await node in the loop)]: awaits of something that cannot be followed."""
    sites, opaque = [], []

    def scan(nodes, sc, top, d):
        for n in nodes:
            if not isinstance(n, ast.Await):
                continue
            t = top if top is not None else n
            if _is_sleep(n):
                sites.append((n, sc, t))
                continue
            c = n.value
            callee = resolve_callee(c, mod, sc.defs) if isinstance(c, ast.Call) else None
            if callee is not None and d > 0 and callee is not sc.func:
                scan(list(walk_body(callee)), _Scope(callee, all_defs(callee), call=c, outer=sc), t, d - 1)
            else:
                opaque.append((n, t))

    scan(list(ast.walk(L)), root_sc, None, depth)
    return sites, opaque


def _ev(e, env):
    """sa.minieval.ev, plus max / min of several numbers (clamped waits)"""
    class T(ast.NodeTransformer):
        def visit_Call(self, n):
            self.generic_visit(n)
            if dotted(n.func) in ("max", "min") and len(n.args) >= 2 and not n.keywords:
                vals = [ev(a, dict(env)) for a in n.args]
                if all(isinstance(v, (int, float)) and not isinstance(v, bool) for v in vals):
                    return ast.Constant(value=max(vals) if dotted(n.func) == "max" else min(vals))
            return n

    return ev(T().visit(source.clone(e)), dict(env))


def _truth(e, env):
    try:
        return bool(_ev(e, env))
    except (CannotEval, TypeError, ValueError, KeyError, AttributeError, ZeroDivisionError):
        return None


def wait_verdict(s, sc, L, sched, lat_inl, ctxvar, opaque_in=None):
    """('ok' | 'bad' | 'unknown', detail) for one sleep of the request loop: it is the sleep-until of the throttled schedule iff (1) its amount derives from a quantity
    R = T - now() whose T is the very T the throttled latency subtracts from request_end (R + latency == request_end - now()), and (2) for every representative
    (scheduled time, R) the client waits R when the task is throttled (scheduled time > 0) and ahead of time (R > 0) and does not wait otherwise. A condition on the wait
    that depends on neither value can suppress it: located and wrong."""
    call_ = s.value
    argv = call_.args[0] if call_.args else (call_.keywords[0].value if call_.keywords else None)
    if argv is None:
        return "unknown", "asyncio.sleep() without an amount"

    def chain_of(nm, sc0):
        ch, e, cs = [], ast.Name(id=nm, ctx=ast.Load()), sc0
        for _ in range(12):
            if isinstance(e, ast.Name) and e.id in cs.defs:
                ch.append((cs, e.id))
                e = cs.defs[e.id]
            elif isinstance(e, ast.Name) and e.id in cs.bind and cs.outer is not None:
                ch.append((cs, e.id))
                e, cs = cs.bind[e.id], cs.outer
            else:
                break
        return ch, e, cs

    def reads_clock(e, cs):
        return any(_is_clock(n) or (isinstance(n, ast.Name) and _is_clock(cs.defs.get(n.id))) for n in ast.walk(e))

    if not isinstance(argv, ast.Name) and reads_clock(argv, sc):
        # the amount is spelled out in the call: the quantity is the outermost sum / difference in it that reads the clock (`max(0, T - now())`: T - now())
        sums = [n for n in ast.walk(argv) if isinstance(n, ast.BinOp) and isinstance(n.op, (ast.Add, ast.Sub)) and reads_clock(n, sc)]
        outer = [n for n in sums if not any(n is not m and any(x is n for x in ast.walk(m)) for m in sums)]
        if len(outer) != 1:
            return "unknown", f"the amount `{u(argv)}` is not derived from one difference to a reading of the monotonic clock"
        chain, rdef, rsc = [], outer[0], sc
    else:
        cands = []
        for n in ast.walk(argv):
            if isinstance(n, ast.Name) and isinstance(n.ctx, ast.Load):
                ch, e, cs = chain_of(n.id, sc)
                if ch and reads_clock(e, cs):
                    cands.append((ch, e, cs))
        if len(cands) != 1:
            return "unknown", f"the amount `{u(argv)}` is not derived from one difference to a reading of the monotonic clock"
        chain, rdef, rsc = cands[0]
    if lat_inl is None or ctxvar is None:
        return "unknown", "the throttled latency formula was not located"
    r1 = source.inline_node(rdef, {k: v for k, v in rsc.defs.items() if _is_clock(v)}, no_calls=False)  # `now = clock(); rest = T - now` is one read
    rl = lift(r1, rsc)
    if not rat_equal(ast.BinOp(left=rl, op=ast.Add(), right=lat_inl), parse_expr(f"{ctxvar}.request_end - time.perf_counter()")):
        if opaque_in is not None and opaque_in(rl, lat_inl):
            return "unknown", (f"sleep({u(argv)}) waits for {u(rl)}, the throttled latency is {u(lat_inl)}: {opaque_in(rl, lat_inl)} hold(s) the result of a call that cannot be read "
                               "as a formula")
        return "bad", f"sleep({u(argv)}) waits for {u(rl)} whereas the throttled latency is {u(lat_inl)}: not the same point in time"
    names = {}
    for cs, nm in chain:
        names.setdefault(id(cs), set()).add(nm)
    rtext = u(rdef)

    def valued(rv):
        def hook(e, cs):
            mine = names.get(id(cs), ())

            class T(ast.NodeTransformer):
                def visit(self, n):
                    if isinstance(n, ast.Name) and isinstance(n.ctx, ast.Load) and n.id in mine:
                        return ast.Constant(value=rv)
                    if cs is rsc and isinstance(n, ast.BinOp) and u(n) == rtext:
                        return ast.Constant(value=rv)
                    return self.generic_visit(n)

            return T().visit(source.clone(e))

        return hook

    conds, node, cs = [], s, sc
    while True:
        top_level = cs.outer is None
        conds += [(t, pol, cs) for t, pol in guards(node, stop=L if top_level else None, path_sensitive=not top_level)]
        if top_level:
            break
        node, cs = cs.call, cs.outer
    facts = [(f, cs) for t, pol, cs in conds for f in conjuncts(t if pol else negate(t))]
    shown = f"sleep({u(argv)}) with {u(argv)} from {u(rl)} under {[u(f) for f, _ in facts]}"
    for sv, rv in _WAIT_GRID:
        hook, env = valued(rv), {sched: sv}
        vals = [(_truth(lift(f, cs, hook), env), f) for f, cs in facts]
        try:
            amount = _ev(lift(argv, sc, hook), env)
        except (CannotEval, TypeError, ValueError, KeyError, AttributeError, ZeroDivisionError):
            amount = None
        if not isinstance(amount, (int, float)) or isinstance(amount, bool):
            return "unknown", f"{shown}: the amount cannot be evaluated for scheduled time {sv:g}, T - now() = {rv:g}"
        want = rv if sv > 0 and rv > 0 else 0
        foreign = [u(f) for v, f in vals if v is None]
        if any(v is False for v, _ in vals):
            got = 0
        elif not foreign:
            got = amount if amount > 0 else 0
        elif want > 0:
            return "bad", f"{shown}: the wait additionally depends on {foreign}, which is neither the scheduled time nor the time left - a throttled client that is ahead of time may issue its request early"
        elif amount > 0:
            return "unknown", f"{shown}: {foreign} cannot be evaluated on the scheduled time and the time left"
        else:
            got = 0
        if got != want:
            return "bad", f"{shown}: scheduled time {sv:g}, T - now() = {rv:g}: the client waits {got:g}, the schedule demands {want:g}"
    return "ok", shown


def sampler_add_fn(drv):
    """(Sampler.add, the Sample(...) construction in it): the method of the sampler class that builds the Sample - located by what it does, not by its name"""
    sc_ = drv.cls("Sampler")
    for m in drv.methods(sc_).values():
        ctor = [n for n in walk_body(m) if isinstance(n, ast.Call) and last_attr(n.func) == "Sample"]
        if ctor:
            return m, ctor[0]
    raise AnchorMissing("the method of Sampler that constructs the Sample")


def sampler_add_calls(root, add_fn, defs):
    """calls under root that hand a sample to the sampler: the callee - written out or through a local alias of the bound method - is an attribute named like the
    Sample-constructing method and the arguments bind every required parameter of it"""
    a = add_fn.args
    required = [x.arg for x in (a.posonlyargs + a.args)][1:len(a.posonlyargs + a.args) - len(a.defaults)] + [x.arg for x, d in zip(a.kwonlyargs, a.kw_defaults) if d is None]
    out = []
    for n in ast.walk(root):
        if not isinstance(n, ast.Call):
            continue
        f = _root(n.func, defs) if isinstance(n.func, ast.Name) else n.func
        if isinstance(f, ast.Attribute) and f.attr == add_fn.name and all(p in bind_args(n, add_fn) for p in required):
            out.append(n)
    return out


def sample_handovers(root, sc, drv, add_fn):
    """[(node under root that hands a sample to the sampler, {parameter of Sampler.add -> expression over the names of the function of scope sc}, unconditional?)]: the calls
    of Sampler.add written under root, or - if there is none - the calls of a helper (method of the class / function of the module) whose body hands over exactly one sample:
    the helper's parameters are replaced by the caller's argument expressions (the caller's own nodes where an argument is passed through unchanged). `unconditional` says
    whether the hand-over inside the helper is on every normal path through it (True for a direct call)."""
    direct = sampler_add_calls(root, add_fn, sc.defs)
    if direct:
        return [(c, bind_args(c, add_fn), True) for c in direct]
    out = []
    for c in ast.walk(root):
        h = resolve_callee(c, drv, sc.defs) if isinstance(c, ast.Call) else None
        if h is None or h is sc.func:
            continue
        hd = all_defs(h)
        inner = sampler_add_calls(h, add_fn, hd)
        if len(inner) != 1:
            continue
        hs = _Scope(h, hd, call=c, outer=sc)
        b = {}
        for p_, e in bind_args(inner[0], add_fn).items():
            r = _root(e, hd)
            if isinstance(r, ast.Name) and r.id in hs.bind:
                b[p_] = hs.bind[r.id]
            else:
                x = lift(e, hs)
                ast.copy_location(x, c)
                x._module = getattr(c, "_module", None)
                b[p_] = x
        gh = cfg_of(h)
        always = not guards(inner[0], path_sensitive=True) and source.enclosing(inner[0], (ast.For, ast.While, ast.AsyncFor)) is None \
            and gh.must_pass(gh.entry, gh.nodes_of(inner[0]), normal_only=True)
        out.append((c, b, always))
    return out


def sample_field_flow(drv):
    """(add function, Sample(...) call in it, {parameter of add -> Sample attribute it lands in}, {Sample parameter -> expression in add}). A Sample written as a dataclass
    (no __init__) stores every field under its own name."""
    add_fn, ctor = sampler_add_fn(drv)
    sample = drv.cls("Sample")
    init = drv.methods(sample).get("__init__")
    attr_of_param = {}
    if init is None:
        fields = [s.target.id if isinstance(s, ast.AnnAssign) else s.targets[0].id for s in sample.body
                  if (isinstance(s, ast.AnnAssign) and isinstance(s.target, ast.Name)) or (isinstance(s, ast.Assign) and len(s.targets) == 1 and isinstance(s.targets[0], ast.Name))]
        if not fields or not any("dataclass" in u(d) for d in sample.decorator_list):
            raise AnchorMissing("Sample.__init__ (or the fields of a dataclass Sample)")
        init = ast.parse(f"def __init__(self, {', '.join(fields)}):\n    pass").body[0]
        attr_of_param = {f: f for f in fields}
    else:
        for n in walk_body(init):
            if isinstance(n, ast.Assign) and len(n.targets) == 1 and is_self_attr(n.targets[0]) and isinstance(n.value, ast.Name):
                attr_of_param[n.value.id] = n.targets[0].attr
    b2 = bind_args(ctor, init)  # Sample parameter -> expression in add
    add_params = set(params_of(add_fn)) | {x.arg for x in add_fn.args.kwonlyargs}
    attr_of_add_param = {e.id: attr_of_param.get(sp) for sp, e in b2.items() if isinstance(e, ast.Name) and e.id in add_params}
    return add_fn, ctor, attr_of_add_param, b2


def task_start_of(call, L, g, defs):
    """The local holding the task start: the EARLIEST read of the monotonic clock before the request loop (a later pre-loop read - e.g. the schedule start taken after the
    ramp-up wait - is a different role, see schedule_anchor)."""
    cands = [k for k, v in defs.items() if _is_clock(v) and L not in list(source.ancestors(v))]
    if not cands:
        raise AnchorMissing("task start timestamp (perf_counter before the loop)")

    def at(k):
        return g.node_of(defs[k])

    first = [k for k in cands if all(k == o or (g.path_exists(at(k), at(o)) and not g.path_exists(at(o), at(k))) for o in cands)]
    if len(first) != 1:
        raise AnchorMissing(f"task start timestamp: the pre-loop clock reads {sorted(cands)} are not totally ordered")
    return first[0]


# ---- the executor's start-up (everything before the request loop) decided on values ------------------------------------------------------------------------------------------------
# The zero point of the throughput schedule is whatever the loop adds the scheduled time to. Whether that value is a reading of the monotonic clock, and whether it was taken
# before or after the client's ramp-up wait, is decided by running the EXTRACTED start-up statements on a virtual clock (a clock read yields the virtual time, `await
# asyncio.sleep(x)` advances it by x) for representative values of the wait amount; if / conditional-expression tests are evaluated by sa.minieval on those values, a test that
# depends on anything else forks both ways. No repository code is executed. Local helper: sa.minieval has no notion of time or of statements.

_T0 = 5000  # virtual monotonic time at which the executor is entered
_WAITS = (0, 1000)  # representative ramp-up wait amounts: none / a long one


class _Opaque:
    def __repr__(self):
        return "?"


_OPQ = _Opaque()


class _SimUnsupported(Exception):
    pass


class _St:
    """one abstract path through the start-up code: values of the locals, virtual time, end of the ramp-up wait (None: this path did not wait)"""

    def __init__(self, env=None, t=_T0, wait_end=None, wait_from=None, unknown_wait=False, stack=()):
        self.env, self.t, self.wait_end, self.wait_from, self.unknown_wait = dict(env or {}), t, wait_end, wait_from, unknown_wait
        self.stack = [dict(e) for e in stack]  # locals of the callers while a helper of the executor is walked

    def copy(self):
        return _St(self.env, self.t, self.wait_end, self.wait_from, self.unknown_wait, self.stack)

    def plain(self):
        return {k: v for k, v in self.env.items() if v is not _OPQ}


def _is_sleep(n):
    return isinstance(n, ast.Await) and isinstance(n.value, ast.Call) and dotted(n.value.func) == "asyncio.sleep"


_alias_cache: dict = {}


def _clock_name(n):
    """'time.<f>' if the call n reads a clock of the time module: written out, through a name imported from time, or through a local alias of the function hoisted out of
    a loop (`now = time.perf_counter`); None for anything else"""
    if not isinstance(n, ast.Call):
        return None
    f = n.func
    if isinstance(f, ast.Name):
        fn = source.enclosing_func(n)
        if fn is not None:
            d = _alias_cache.get(id(fn))
            if d is None or d[0] is not fn:
                d = _alias_cache[id(fn)] = (fn, local_defs(fn))
            v = d[1].get(f.id)
            if isinstance(v, ast.Attribute):
                f = v
        if isinstance(f, ast.Name):
            m = getattr(n, "_module", None)
            full = m.imports.get(f.id) if m is not None else None
            return full if full and full.startswith("time.") else None
    d = dotted(f)
    return d if d and d.startswith("time.") else None


def _is_clock(n):
    return _clock_name(n) == "time.perf_counter" and not n.args and not n.keywords


class _Sim:
    def __init__(self, L, roots, w):
        self.L, self.roots, self.w, self.reached = L, set(roots), w, []
        self.mod = getattr(L, "_module", None)
        self.rets = None  # [(value, state)] of the helper being walked; None at the top level

    # -- helpers of the executor / functions of the module called while the client starts up (an extracted ramp-up wait, an extracted choice of the schedule's zero point)
    def helper_of(self, v):
        c = v.value if isinstance(v, ast.Await) else v
        if self.mod is None or not isinstance(c, ast.Call) or _is_sleep(v):
            return None, None
        f = resolve_callee(c, self.mod)
        if f is None or any(n is self.L for n in ast.walk(f)) or isinstance(f, ast.AsyncFunctionDef) != isinstance(v, ast.Await):
            return None, None
        return f, c

    def call_helper(self, f, c, st, target=None):
        """[state]: the helper's body walked on the same virtual clock with its parameters bound to the values of the arguments; its result is bound to `target`"""
        if len(st.stack) >= 2:
            raise _SimUnsupported(f"helpers nested more than two calls deep (line {c.lineno})")
        args = {p: self.val(a, st) for p, a in bind_args(c, f).items()}
        for a_, d in zip(reversed(f.args.args), reversed(f.args.defaults)):  # defaults of parameters that are not passed
            if a_.arg not in args:
                args[a_.arg] = self.val(d, st)
        st.stack.append(st.env)
        st.env = args
        saved, self.rets = self.rets, []
        try:
            outs = [(None, o) for o in self.block(f.body, [st])] + self.rets
        finally:
            self.rets = saved
        final = []
        for v, o in outs:
            o.env = o.stack.pop()
            if target is not None:
                o.env[target] = v
            final.append(o)
        return final

    # -- expressions
    def bound(self, e, st):
        """copy of e in which the wait amount (by its defining expression) and clock reads are replaced by their values on this path"""
        sim = self
        clock_reads = {u(n) for n in ast.walk(e) if _is_clock(n)}  # decided on the original nodes: an alias of the clock function is resolved in their function

        class T(ast.NodeTransformer):
            def visit(self, n):
                if isinstance(n, ast.expr) and u(n) in sim.roots:
                    return ast.Constant(value=sim.w)
                if isinstance(n, ast.Call) and u(n) in clock_reads:
                    return ast.Constant(value=st.t)
                return self.generic_visit(n)

        return T().visit(source.clone(e))

    def val(self, e, st):
        try:
            v = ev(self.bound(e, st), st.plain())
        except (CannotEval, TypeError, ValueError, KeyError, AttributeError):
            return _OPQ
        return v

    def truth(self, e, st):
        v = self.val(e, st)
        return None if v is _OPQ else bool(v)

    def vals(self, e, st):
        """[(value, state)]: a conditional expression whose test cannot be decided forks"""
        if isinstance(e, ast.IfExp):
            t = self.truth(e.test, st)
            out = []
            if t is not False:
                out += self.vals(e.body, st if t else st.copy())
            if t is not True:
                out += self.vals(e.orelse, st if t is False else st.copy())
            return out
        return [(self.val(e, st), st)]

    # -- statements
    def block(self, stmts, states):
        for s in stmts:
            nxt = []
            for st in states:
                nxt += self.stmt(s, st)
            states = nxt
            if len(states) + len(self.reached) > 64:
                raise _SimUnsupported("more than 64 paths through the executor's start-up code")
            if not states:
                break
        return states

    def _forget(self, s, st):
        for n in ast.walk(s):
            if isinstance(n, ast.Name) and isinstance(n.ctx, ast.Store):
                st.env[n.id] = _OPQ
            if _is_sleep(n):
                st.unknown_wait = True

    def stmt(self, s, st):
        if s is self.L:
            self.reached.append(st)
            return []
        if isinstance(s, (ast.Assign, ast.Expr)):
            f, c = self.helper_of(s.value)
            if f is not None:
                tgt = s.targets[0].id if isinstance(s, ast.Assign) and len(s.targets) == 1 and isinstance(s.targets[0], ast.Name) else None
                if isinstance(s, ast.Assign) and tgt is None:
                    for t_ in s.targets:
                        self._forget(t_, st)
                return self.call_helper(f, c, st, tgt)
        if isinstance(s, ast.Assign):
            if len(s.targets) == 1 and isinstance(s.targets[0], ast.Name):
                out = []
                for v, st2 in self.vals(s.value, st):
                    st2.env[s.targets[0].id] = v
                    out.append(st2)
                return out
            for t in s.targets:
                self._forget(t, st)
            return [st]
        if isinstance(s, (ast.AugAssign, ast.AnnAssign)):
            self._forget(s.target, st)
            return [st]
        if isinstance(s, ast.Expr):
            if _is_sleep(s.value):
                a = self.val(s.value.value.args[0], st) if s.value.value.args else _OPQ
                if isinstance(a, (int, float)) and not isinstance(a, bool):
                    if a > 0:
                        st.wait_from = st.t
                        st.t += a
                        st.wait_end = st.t
                else:
                    st.unknown_wait = True
            return [st]
        if isinstance(s, ast.If):
            t = self.truth(s.test, st)
            out = []
            if t is not False:
                out += self.block(s.body, [st if t else st.copy()])
            if t is not True:
                out += self.block(s.orelse, [st if t is False else st.copy()])
            return out
        if isinstance(s, ast.Try):
            out = self.block(s.body, [st])  # exceptional paths never enter the request loop afterwards
            out = self.block(s.orelse, out) if s.orelse else out
            return self.block(s.finalbody, out) if s.finalbody else out
        if isinstance(s, (ast.With, ast.AsyncWith)):
            for i in s.items:
                if i.optional_vars is not None:
                    self._forget(i.optional_vars, st)
            return self.block(s.body, [st])
        if isinstance(s, ast.Return) and self.rets is not None:
            self.rets += self.vals(s.value, st) if s.value is not None else [(None, st)]
            return []
        if isinstance(s, (ast.Return, ast.Raise, ast.Break, ast.Continue)):
            return []
        if isinstance(s, (ast.For, ast.AsyncFor, ast.While, ast.Match)):
            if any(n is self.L for n in ast.walk(s)):
                raise _SimUnsupported(f"the request loop is nested in another compound statement (line {s.lineno})")
            self._forget(s, st)
            return [st]
        return [st]  # def / class / import / pass / assert / global / delete: no effect on the values decided here


def startup_paths(call, L, roots, w):
    """abstract paths of the executor from its entry to the request loop for the wait amount w (see _Sim)"""
    sim = _Sim(L, roots, w)
    sim.block(call.body, [_St()])
    return sim.reached


def schedule_zero(body, st, ctxvar, sched):
    """value of the schedule's zero point on the start-up path st: request_end - scheduled - <throttled latency> (evaluated with scheduled = 0); None if it cannot be evaluated"""
    R = 10 ** 7
    env = st.plain()
    env[ctxvar] = Record(request_end=R, request_start=R - 1)
    env[sched] = 0
    try:
        v = ev(body, env)
    except (CannotEval, TypeError, ValueError, KeyError, AttributeError):
        return None
    return R - v if isinstance(v, (int, float)) and not isinstance(v, bool) else None


def pre_loop_waits(call, L, g):
    """the client's ramp-up wait by role: `await asyncio.sleep(..)` executed before the request loop is entered - written in the executor or in a helper awaited from it.
    [(the sleep, the await node of the executor through which it is reached, locals of the function the sleep is written in)]"""
    Lh = g.node_of(L)
    mod = getattr(L, "_module", None)
    out = []
    for n in walk_body(call):
        if not isinstance(n, ast.Await) or any(a is L for a in source.ancestors(n)) or not g.path_exists(g.node_of(n), Lh):
            continue
        if _is_sleep(n):
            out.append((n, n, None))
        elif mod is not None and isinstance(n.value, ast.Call):
            f = resolve_callee(n.value, mod)
            if f is not None and not any(x is L for x in ast.walk(f)):
                out += [(s, n, all_defs(f)) for s in walk_body(f) if _is_sleep(s)]
    return out


def schedule_zero_cases(call, L, g, defs, lat_body, ctxvar, sched):
    """(ramp-up waits, [(wait amount, start-up path, value of the schedule's zero point on it or None)]) - see _Sim / schedule_zero"""
    found = pre_loop_waits(call, L, g)
    waits = [top for _, top, _ in found]
    roots = {u(_root(s.value.args[0], defs if hd is None else hd)) for s, _, hd in found if s.value.args}  # the wait amount, named by its defining expression (alias chains followed)
    ldefs = {k: v for k, v in defs.items() if any(a is L for a in source.ancestors(v))}  # temporaries of the loop body are folded, start-up locals are looked up on the path
    body = inline_node(lat_body, ldefs)
    out = []
    for w in _WAITS:
        for st in startup_paths(call, L, roots, w):
            out.append((w, st, schedule_zero(body, st, ctxvar, sched)))
    return waits, out


def schedule_zero_is_clock_reading(call, L, g, defs, lat_body, ctxvar, sched):
    """(ok, detail): the throttled latency is request_end - (Z + scheduled) for a loop-invariant Z (symbolic: rational normal form), and Z evaluates to a reading of the monotonic
    clock taken between the executor's entry and the loop entry on every start-up path that can be evaluated (paths that cannot are O4.7's business)."""
    from fractions import Fraction

    from sa.sym import NotRational, ratfun

    if ctxvar is None or lat_body is None:
        return False, ""
    try:
        z = ratfun(ast.BinOp(left=parse_expr(f"{ctxvar}.request_end - {sched}"), op=ast.Sub(), right=inline_node(lat_body, defs)))
    except NotRational as e:
        return False, f"not an arithmetic formula: {e}"
    per_request = {n.id for n in ast.walk(L) if isinstance(n, ast.Name) and isinstance(n.ctx, ast.Store)} | {ctxvar, sched}

    def varies(atom):
        try:
            t = parse_expr(atom)
        except SyntaxError:
            return True
        return any(isinstance(n, (ast.Call, ast.Await)) or (isinstance(n, ast.Name) and n.id in per_request) for n in ast.walk(t))

    if z.den != {(): Fraction(1)} or not z.num or any(varies(a) for a in z.atoms()):
        return False, f"request_end - scheduled - latency = {z!r}: not a zero point that is the same for every request of the client"
    try:
        _, cases = schedule_zero_cases(call, L, g, defs, lat_body, ctxvar, sched)
    except _SimUnsupported:
        return True, ""
    for w, st, zero in cases:
        if zero is not None and not _T0 <= zero <= st.t:
            return False, (f"with a ramp-up wait of {w} the schedule's zero point evaluates to {zero:g} on a virtual monotonic clock that shows {_T0} at the executor's entry and "
                           f"{st.t:g} when the request loop is entered: not a reading of that clock taken while the client starts")
    return True, ""


def schedule_start_rule(chk, rid, call, L, g, defs, lat_body, ctxvar, sched):
    """F40 (rally 249cfef): the zero point of the client's throughput schedule is not earlier than the end of its ramp-up wait. Anchored before the wait, a client that rally
    itself held back for W seconds finds every request scheduled within W overdue, issues them back-to-back and reports latencies of up to W although it was never behind.
    The zero point is located by role (what the throttled latency adds to the scheduled time; O4.3 ties the sleep-until to the same T), the wait is the sleep before the loop,
    the verdict is decided on values (virtual clock, wait amounts _WAITS). time_period may keep the earlier task start."""
    chk.rule(rid, "the zero point of the throughput schedule (the Z of the throttled latency request_end - (Z + scheduled) and of the sleep-until) is a reading of the monotonic clock "
             "that is not earlier than the end of the client's ramp-up wait", 2,
             "a client delayed by ramp-up treats all requests scheduled within its delay as overdue: they are issued back-to-back (target throughput exceeded) and each reports "
             "a latency that contains the ramp-up delay although the client was never behind schedule")
    if lat_body is None or ctxvar is None:
        raise AnchorMissing("throttled latency formula (conditional expression handed to sampler.add as latency)")
    waits = [top for _, top, _ in pre_loop_waits(call, L, g)]
    if not waits:
        raise AnchorMissing("ramp-up wait: `await asyncio.sleep(..)` before the request loop of AsyncExecutor.__call__ (in it or in a helper awaited from it)")
    try:
        _, cases = schedule_zero_cases(call, L, g, defs, lat_body, ctxvar, sched)
    except _SimUnsupported as e:
        chk.unknown(rid, f"start-up of AsyncExecutor.__call__ cannot be walked on the virtual clock: {e}", waits[0])
        return
    for w in _WAITS:
        mine = [(st, z) for w_, st, z in cases if w_ == w]
        if not mine:
            raise AnchorMissing(f"no start-up path of AsyncExecutor.__call__ reaches the request loop with a ramp-up wait of {w}")
        if any(z is None or st.unknown_wait for st, z in mine):
            chk.unknown(rid, f"the schedule's zero point (or the length of the ramp-up wait) cannot be evaluated on the virtual clock for a wait amount of {w}", waits[0])
            continue
        if w > 0:
            waited = [(st, z) for st, z in mine if st.wait_end is not None]
            if not waited:
                chk.unknown(rid, f"no start-up path waits although the ramp-up wait amount is {w}", waits[0])
                continue
            bad = [(st, z) for st, z in waited if z < st.wait_end]
            st, z = (bad or waited)[0]
            chk.ob(rid, "client delayed by ramp-up: the schedule's zero point is not earlier than the end of the ramp-up wait", not bad, waits[0],
                   f"virtual monotonic clock: executor entered at {_T0}, ramp-up wait {st.wait_from:g} -> {st.wait_end:g}, request loop entered at {st.t:g}, schedule zero point {z:g}"
                   + ("" if not bad else f" - {st.wait_end - z:g} before the client may start: every request scheduled within that span is overdue at once and its latency contains the wait"),
                   key=f"{_D}:AsyncExecutor.__call__:schedule-zero:not-before-end-of-ramp-up-wait")
        else:
            bad = [(st, z) for st, z in mine if not _T0 <= z <= st.t]
            st, z = (bad or mine)[0]
            chk.ob(rid, "client without ramp-up delay: the schedule's zero point is a clock reading taken while the client starts", not bad, waits[0],
                   f"virtual monotonic clock: executor entered at {_T0}, request loop entered at {st.t:g}, schedule zero point {z:g}",
                   key=f"{_D}:AsyncExecutor.__call__:schedule-zero:clock-reading-at-start")


def _ends_request(c, mod=None, depth=2):
    """a call that records `now` as the end of the current request context: the holder's on_request_end() / update_request_end(<clock read>), or a helper of the class /
    module every normal path of which passes such a call (an extracted `_request_failed()`)"""
    if not isinstance(c, ast.Call):
        return False
    if last_attr(c.func) == "on_request_end":
        return True
    if last_attr(c.func) == "update_request_end" and len(c.args) == 1 and _is_clock(c.args[0]):
        return True
    if mod is not None and depth > 0:
        f = resolve_callee(c, mod)
        if f is not None and f is not source.enclosing_func(c):
            gh = cfg_of(f)
            ends = [gh.node_of(x) for x in walk_body(f) if _ends_request(x, mod, depth - 1)]
            return bool(ends) and gh.must_pass(gh.entry, ends, normal_only=True)
    return False


def _catches_exception(try_):
    """the try has a handler that takes every Exception (bare / BaseException / Exception, also inside a tuple)"""
    for h in getattr(try_, "handlers", []):
        ts = [None] if h.type is None else (h.type.elts if isinstance(h.type, ast.Tuple) else [h.type])
        if any(t is None or last_attr(t) in ("BaseException", "Exception") for t in ts):
            return True
    return False


def frame_ends_failed_request(f, mod=None):
    """(protected, swallowed, detail) for one frame `perform_request` of the async client's call chain: protected = every exceptional exit of each awaited delegate
    `….perform_request(..)` passes a call that records the end of the request (the call itself may fail - a missing context - and be tolerated) before the exception leaves the
    frame; only non-Exception BaseExceptions (cancellation of the client, no request outcome) may leave unrecorded; swallowed = a failure can reach the frame's normal exit."""
    g = cfg_of(f)
    delegates = [n.value for n in walk_body(f) if isinstance(n, ast.Await) and isinstance(n.value, ast.Call) and last_attr(n.value.func) == "perform_request"]
    if not delegates:
        return False, False, "no awaited delegate perform_request call"
    ends = [n_ for c in walk_body(f) if _ends_request(c, mod) for n_ in g.nodes_of(c)]  # every copy: the body of a `finally` exists once per way of leaving the try
    # a `with <guard>:` block around the recording call (contextlib.suppress for the missing context) is entered in order to record: entering it counts as the attempt
    # (only if the call is an unconditional statement of the block that nothing fallible precedes)
    from sa.cfg import may_raise

    def records_first(w):
        for s_ in w.body:
            if isinstance(s_, ast.Expr) and _ends_request(s_.value, mod):
                return True
            if may_raise(s_):
                return False
        return False

    ends += [n_ for w in walk_body(f) if isinstance(w, (ast.With, ast.AsyncWith)) and records_first(w) for n_ in g.by_ast.get(id(w), []) if n_.kind == "with"]
    def infeasible_after_failure(dn):
        """edges that cannot be taken once the delegate call (node dn) has raised: the arm of a test of a boolean flag - a local bound to True / False only - that contradicts
        the one value the flag has whenever the delegate runs (`failed = True; try: r = await ...; failed = False ... finally: if failed: <record>`); bindings that only run
        after the delegate returned do not count, a flag that can be re-bound on the way out of the failure is left alone"""
        binds, spoiled = {}, set()
        for n in walk_body(f):
            if isinstance(n, ast.Assign) and len(n.targets) == 1 and isinstance(n.targets[0], ast.Name) and isinstance(n.value, ast.Constant) and isinstance(n.value.value, bool):
                binds.setdefault(n.targets[0].id, []).append(n)
            elif isinstance(n, ast.Name) and isinstance(n.ctx, ast.Store) and not (isinstance(source.parent(n), ast.Assign) and isinstance(source.parent(n).value, ast.Constant)):
                spoiled.add(n.id)
        exc_succ = [g.nodes[y] for y, lab in g.succ[dn.id] if not g.normal_edge(dn.id, y, lab)]
        out = []
        for name, assigns in binds.items():
            if name in spoiled:
                continue
            before = [a for a in assigns if any(g.path_exists(x, dn, edge_ok=g.normal_edge) for x in g.nodes_of(a))]
            vals = {a.value.value for a in before}
            later = [a for a in assigns if a not in before]
            if len(vals) != 1 or any(g.path_exists(s_, x) for a in later for x in g.nodes_of(a) for s_ in exc_succ):
                continue
            v = vals.pop()
            for t_ in walk_body(f):
                if isinstance(t_, ast.If):
                    truth = v if (isinstance(t_.test, ast.Name) and t_.test.id == name) else (not v) if pat.is_(t_.test, "not V_x", binds={"x": name}) else None
                    if truth is not None:
                        out += [(tn.id, y, lab) for tn in g.nodes_of(t_) for y, lab in g.succ[tn.id] if lab == ("false" if truth else "true")]
        return out

    protected, swallowed, detail = True, False, ""
    for d in delegates:
        dn = g.node_of(d)
        dead = infeasible_after_failure(dn)
        for y, lab in g.succ[dn.id]:
            if g.normal_edge(dn.id, y, lab):
                continue
            s = g.nodes[y]
            if s is g.raise_exit:
                # leaves the frame at once: tolerable only for what an `except Exception` around the delegate does not take (CancelledError & co: the client is torn down)
                tr = [a for a in source.ancestors(d) if isinstance(a, ast.Try) and any(d is y_ for x in a.body for y_ in ast.walk(x))]
                if not any(_catches_exception(t) for t in tr):
                    protected, detail = False, "a failure of the delegate leaves the frame without passing any handler"
                continue
            if not g.must_pass(s, ends, exits=[g.exit, g.raise_exit], avoid_edges=dead):
                protected = False
                p_ = g.find_path(s, g.raise_exit, avoid=ends) or g.find_path(s, g.exit, avoid=ends)
                detail = "a failure leaves through " + " ".join(g.describe_path(p_)) if p_ else "a failure leaves without recording the request end"
            if g.exit.id in g.reachable([s], avoid_edges=dead):
                swallowed = True
    return protected, swallowed, detail


def failed_request_end_rule(chk, rid, repo):
    """F39 (rally 09d2ce8): service time spans until the response - or the FAILURE - of the request. aiohttp signals on_request_exception only until the response headers have
    arrived; elastic_transport reads the body afterwards, so a timeout / disconnect during that read reaches no trace hook and the request context keeps the time of the last
    chunk (service time = time to first byte, the wait is booked as client overhead). Hence some frame of the async client's own call chain (node class handed to the transport,
    transport subclass, client) must record the end of the request on every exceptional exit of its delegate call and let the failure propagate."""
    am = repo.module(_A)
    chk.use(am)
    chk.rule(rid, "a wire request of the async client that fails - also after its response headers arrived - ends when it fails: the client's perform_request chain records the "
             "request end on every exceptional exit and re-raises; the transport is built with that node class", 3,
             "a request that times out / is disconnected while its body is read is recorded with the time to its first byte as service time and latency (on-error=continue), "
             "the time the client kept waiting is booked as client-side overhead")
    node_cls = [c for c in am.classes() if any(last_attr(b) == "AiohttpHttpNode" for b in c.bases)]
    if len(node_cls) != 1:
        raise AnchorMissing(f"{_A}: the node class of the async client (the one subclass of elastic_transport's AiohttpHttpNode), found {len(node_cls)}")
    nc = node_cls[0]
    chain = [nc] + [c for c in am.classes() if any(last_attr(b) in ("AsyncTransport", "AsyncElasticsearch") for b in c.bases)]
    frames = [(c, am.methods(c)["perform_request"]) for c in chain if "perform_request" in am.methods(c)]
    verdicts = [(c, f, *frame_ends_failed_request(f, am)) for c, f in frames]
    verdicts = [v for v in verdicts if v[4] != "no awaited delegate perform_request call"]  # a frame that does not delegate (in a recognisable way) says nothing
    good = [v for v in verdicts if v[2]]
    nf = am.methods(nc).get("perform_request")
    site = good[0][1] if good else (nf if nf is not None else nc)

    def opaque_recorders():
        """calls on the exceptional exits of the delegate calls that are neither recognised as recording the request end nor resolvable nor logging: they MAY record it"""
        out = []
        for _, f, *_ in verdicts:
            for t_ in (n for n in walk_body(f) if isinstance(n, ast.Try)):
                if not any(isinstance(n, ast.Await) and isinstance(n.value, ast.Call) and last_attr(n.value.func) == "perform_request" for x in t_.body for n in ast.walk(x)):
                    continue
                for blk in [h.body for h in t_.handlers] + [t_.finalbody]:
                    for x in blk:
                        for n in ast.walk(x):
                            if isinstance(n, ast.Call) and not _ends_request(n, am) and resolve_callee(n, am) is None and not is_logging_stmt(source.enclosing_stmt(n)) \
                                    and "." in (dotted(n.func) or ""):  # a method of some object
                                out.append(n)
        return out

    recognised = any(_ends_request(n, am) for _, f, *_ in verdicts for n in walk_body(f))
    if good:
        detail = f"{good[0][0].name}.perform_request records the end on every exceptional exit of its delegate call"
    elif nf is None:
        detail = (f"{nc.name} does not override perform_request and no other frame of the chain ({', '.join(c.name for c, _ in frames) or 'none'}) records the end of a failed "
                  "request: elastic_transport reads the response body after aiohttp's last exception signal, a failure there stops no timer")
    else:
        detail = "; ".join(f"{c.name}.perform_request: {d}" for c, _, ok_, _, d in verdicts if not ok_)
    if not verdicts:
        chk.unknown(rid, "no frame of the async client's perform_request chain awaits a delegate perform_request call: the chain is not recognised in this shape", site)
    elif not good and not recognised and opaque_recorders():
        chk.unknown(rid, f"`{short(opaque_recorders()[0], 70)}` on the exceptional exit of the wire request cannot be followed (it may record the request end)", opaque_recorders()[0])
    else:
        chk.ob(rid, "every exceptional exit of a wire request records the request end (node-level perform_request or a frame above it)", bool(good), site, detail,
               key=f"{_A}:{nc.name}.perform_request:request-end-on-every-exceptional-exit")
    sw = [v for v in verdicts if v[3]]
    if verdicts:
        chk.ob(rid, "the failure of the wire request still propagates (recorded, not swallowed)", not sw, sw[0][1] if sw else site,
               "" if not sw else f"{sw[0][0].name}.perform_request: a path from the failed delegate call reaches the normal exit",
               key=f"{_A}:{nc.name}.perform_request:failure-propagates")
    uses = [k for n in ast.walk(am.tree) if isinstance(n, ast.Call) for k in n.keywords if k.arg == "node_class"]
    named = [last_attr(k.value) for k in uses]
    elsewhere = [n for n in ast.walk(am.tree) if isinstance(n, ast.Name) and n.id == nc.name and isinstance(n.ctx, ast.Load) and not any(n is k.value for k in uses)]
    if (not uses and elsewhere) or any(x is None for x in named):
        # handed over in another way (a dict of keyword arguments, a variable): the value that reaches the transport cannot be read off
        chk.unknown(rid, f"the node class the async transport is built with (node_class = {[u(k.value) for k in uses] or 'not passed as a keyword'}; {nc.name} is referenced elsewhere)",
                    (uses[0].value if uses else elsewhere[0]))
    else:
        chk.ob(rid, "the async transport is built with this node class", bool(uses) and all(x == nc.name for x in named), uses[0].value if uses else nc,
               f"node_class = {[u(k.value) for k in uses] or 'not set: the class is referenced nowhere, the transport uses the default node class of the library'}",
               key=f"{_A}:{nc.name}:node-class-of-the-async-transport")


# ---- strengthening round 5: the sample type follows the task's clock (O4.9), a failed request passes the feedback to the schedule (O4.10), the sampler's queue holds what the
# configuration says (O4.11) -----------------------------------------------------------------------------------------------------------------------------------------------------------
_S = "esrally/driver/scheduler.py"


def sample_type_clock_rule(chk, rid, repo):
    """Every sample carries the sample type that belongs to its ISSUE TIME: for a time-based task the schedule decides warm-up vs. measurement (and the end of the time period) by
    the time elapsed since its timer was started, and that timer belongs to the task, not to the client - rally only validates warmup-time-period >= ramp-up-time-period. A
    client that rally itself holds back for d seconds (ramp-up) must therefore start the timer when the executor is entered, BEFORE its ramp-up wait: started after it, every
    request the client issues between W and W + d after the task start is recorded as warm-up (and vanishes from latency / service time / throughput) and the client keeps
    issuing requests for d seconds after warm-up + time-period is over. Decided on values by walking AsyncExecutor.__call__ on a virtual clock with a ramp-up wait of 4 s and of
    0 s (the walk and the obligation are owned by rules/C05.py, shared with C07/O7.11): the call that starts the handle's timer is made exactly once, at the client's entry."""
    drv = repo.module(_D)
    chk.rule(rid, "the sample type a request is recorded with follows from its issue time relative to the start of the TASK: the timer of the schedule that decides warm-up vs. "
             "measurement (and the end of a time period) is started once, when the executor is entered - before the client's ramp-up wait", 1,
             "a time-based task with ramp-up: a client that starts d seconds late records what it issues between W and W + d after the task start as warm-up samples (missing from "
             "every reported latency / service time / throughput) and keeps issuing requests for d seconds after the task's time period is over")
    from rules.C05 import timer_before_rampup_rule

    timer_before_rampup_rule(chk, rid, drv, "the warm-up / measurement clock of client i starts ramp-up * i / total late: the sample type of its requests no longer matches their issue time")


def _const_number(e):
    """value of an expression built from number literals and arithmetic / shift operators only (`1 << 20`, `2 ** 20`, `16 * 1024`); None for anything else"""
    import operator as op_

    ops = {ast.Add: op_.add, ast.Sub: op_.sub, ast.Mult: op_.mul, ast.FloorDiv: op_.floordiv, ast.LShift: op_.lshift, ast.RShift: op_.rshift, ast.Pow: op_.pow}
    if isinstance(e, ast.Constant) and isinstance(e.value, (int, float)) and not isinstance(e.value, bool):
        return e.value
    if isinstance(e, ast.UnaryOp) and isinstance(e.op, ast.USub):
        v = _const_number(e.operand)
        return None if v is None else -v
    if isinstance(e, ast.BinOp) and type(e.op) in ops:
        a, b = _const_number(e.left), _const_number(e.right)
        if a is None or b is None or (isinstance(e.op, (ast.LShift, ast.Pow)) and not (isinstance(b, int) and 0 <= b <= 64)):
            return None
        try:
            return ops[type(e.op)](a, b)
        except (ZeroDivisionError, TypeError, ValueError, OverflowError):
            return None
    return None


_CAP = 777777  # representative configured capacity (neither the constructor's default nor the documented default of the option)
_CAP_KEY = "sample.queue.size"
_BOUNDED = {"Queue": ("maxsize", 0), "LifoQueue": ("maxsize", 0), "PriorityQueue": ("maxsize", 0), "deque": ("maxlen", 1)}  # constructor -> (keyword, position) of its capacity
_UNBOUNDED = {"SimpleQueue"}


def sampler_queue(drv):
    """(Sampler.__init__, name of its parameter that IS the capacity of the queue the samples are put into | None: the queue is unbounded, the queue construction, detail,
    verdict) - verdict True: the capacity is the parameter's value (or there is none), False: located and not, None: not recognised. The queue is located by role: the attribute
    of the sampler that the Sample-constructing method puts the sample into; its capacity is decided on VALUES (the extracted capacity expression evaluated with the
    representative capacity in the place of each constructor parameter)."""
    samp = drv.cls("Sampler")
    add_fn, _ = sampler_add_fn(drv)
    adefs = all_defs(add_fn)
    recv = set()
    for n in walk_body(add_fn):
        if isinstance(n, ast.Call) and isinstance(n.func, ast.Attribute) and n.func.attr in ("put_nowait", "put", "append", "appendleft"):
            r = _root(n.func.value, adefs)
            if is_self_attr(r):
                recv.add(r.attr)
    if len(recv) != 1:
        raise AnchorMissing(f"the attribute of Sampler that {add_fn.name}() puts the sample into (put_nowait / put / append on self.<attr>): {sorted(recv) or 'none'} found")
    qattr = recv.pop()
    sets = [(n, m) for m in drv.methods(samp).values() for n in walk_body(m) if isinstance(n, ast.Assign) and any(is_self_attr(t, qattr) for t in n.targets)]
    init = drv.methods(samp).get("__init__")
    if len(sets) != 1 or init is None or sets[0][1] is not init or not isinstance(sets[0][0].value, ast.Call):
        raise AnchorMissing(f"the one construction of Sampler.{qattr} in Sampler.__init__ ({len(sets)} binding(s) of the attribute found)")
    made = sets[0][0].value
    kind = last_attr(made.func)
    if kind in _UNBOUNDED:
        return init, None, made, f"self.{qattr} = {short(made, 60)}: unbounded", True
    if kind not in _BOUNDED or any(isinstance(a, ast.Starred) for a in made.args) or any(k.arg is None for k in made.keywords):
        return init, None, made, f"self.{qattr} = {short(made, 60)}: not a queue of the standard library whose capacity can be read off", None
    kw, pos = _BOUNDED[kind]
    cap = arg_of(made, pos, kw)
    if cap is None:
        return init, None, made, f"self.{qattr} = {short(made, 60)}: no capacity given, unbounded", True
    cap = source.inline_node(cap, local_defs(init), no_calls=False)
    a = init.args
    names = [x.arg for x in a.posonlyargs + a.args][1:] + [x.arg for x in a.kwonlyargs]
    dflt = {x.arg: d for x, d in zip(reversed(a.posonlyargs + a.args), reversed(a.defaults))}
    dflt.update({x.arg: d for x, d in zip(a.kwonlyargs, a.kw_defaults) if d is not None})
    env0 = {}
    for p, d in dflt.items():
        v = _const_number(d)
        if v is not None:
            env0[p] = v
    used = [p for p in names if any(isinstance(n, ast.Name) and n.id == p for n in ast.walk(cap))]
    shown = f"self.{qattr} = {short(made, 60)} with capacity `{u(cap)}`"
    if not used:
        try:
            v = _ev(cap, env0)
        except (CannotEval, TypeError, ValueError, KeyError, AttributeError, ZeroDivisionError):
            return init, None, made, shown + ": cannot be evaluated", None
        if v is None or (isinstance(v, (int, float)) and not isinstance(v, bool) and v <= 0):
            return init, None, made, shown + ": unbounded", True
        return init, None, made, shown + f": a fixed capacity of {v!r} whatever the sampler is constructed for", False
    got = {}
    for p in used:
        try:
            got[p] = _ev(cap, {**env0, p: _CAP})
        except (CannotEval, TypeError, ValueError, KeyError, AttributeError, ZeroDivisionError):
            return init, None, made, shown + f": cannot be evaluated for {p} = {_CAP}", None
    hit = [p for p, v in got.items() if isinstance(v, (int, float)) and not isinstance(v, bool) and v == _CAP]
    if len(hit) == 1:
        return init, hit[0], made, shown + f": {hit[0]} = {_CAP} gives a queue of {got[hit[0]]!r}", True
    return init, None, made, shown + f": constructed with {', '.join(f'{p} = {_CAP}' for p in used)} the queue holds {', '.join(repr(v) for v in got.values())} samples", False


def _config_reads(e):
    """[(the call, [its literal arguments])] for the reads of the configuration in e: `<config>.opts(section, key, ...)`"""
    return [(n, [a.value for a in list(n.args) + [k.value for k in n.keywords] if isinstance(a, ast.Constant) and isinstance(a.value, str)])
            for n in ast.walk(e) if isinstance(n, ast.Call) and isinstance(n.func, ast.Attribute) and n.func.attr == "opts"]


def sampler_capacity_rule(chk, rid, repo):
    """"Exactly one sample is recorded per executed request" has one hole by construction: Sampler.add puts the sample into a bounded queue without blocking and DROPS it (a log
    line) when the queue is full; the worker empties the queue only on its periodic wake-up. Rally closes the hole by configuration: `reporting/sample.queue.size` (documented,
    default 2^20) is the number of samples the queue can hold between two wake-ups. Necessary condition, by data flow and decided on values: the capacity of the queue the
    samples are put into (located by role, see sampler_queue) IS the value every Sampler(...) construction of the driver hands over for it, and that value IS the configured
    one - the argument expression, followed through locals and through the attribute of the constructing class it is kept in, is evaluated with the representative capacity
    777777 (as the number the default gives and as the string an ini file gives) in the place of the configuration read. A sampler constructed with the constructor's own small
    default, with a constant, with a clamped value or from another option silently loses every sample beyond that bound within one wake-up period."""
    drv = repo.module(_D)
    chk.use("docs/configuration.rst")
    chk.rule(rid, "the only place where a recorded sample can be dropped - the sampler's bounded queue - holds as many samples as the configuration says: the capacity of the queue is "
             "the value the sampler is constructed with, and every Sampler(...) of the driver is constructed with reporting/sample.queue.size (documented default 2^20)", 2,
             "a worker that executes more requests between two wake-ups than the (smaller) bound in force drops the samples beyond it: requests without a sample, missing from "
             "latency / service time / throughput")
    init, cap_param, made_q, qdetail, verdict = sampler_queue(drv)
    if verdict is None:
        chk.unknown(rid, f"the capacity of the sampler's queue: {qdetail}", made_q)
        return
    chk.ob(rid, "the sampler's queue is unbounded or holds as many samples as the sampler is constructed for", verdict, made_q, qdetail, key=f"{_D}:Sampler.__init__:queue-capacity-is-the-constructor-argument")
    sites = [c for c in ast.walk(drv.tree) if isinstance(c, ast.Call) and last_attr(c.func) == "Sampler" and source.enclosing_func(c) is not None
             and getattr(source.enclosing_class(c), "name", None) != "Sampler"]
    if not sites:
        raise AnchorMissing("a construction Sampler(...) in the driver module")
    if not verdict:
        return
    doc = repo.text("docs/configuration.rst")
    import re as _re

    m_ = _re.search(r"``" + _re.escape(_CAP_KEY) + r"``\s*\(default:\s*(\d+)\s*(?:\^|\*\*)\s*(\d+)\s*\)", doc) or _re.search(r"``" + _re.escape(_CAP_KEY) + r"``\s*\(default:\s*(\d+)\s*\)", doc)
    documented = None if m_ is None else int(m_.group(1)) ** int(m_.group(2)) if m_.lastindex == 2 else int(m_.group(1))
    for c in sites:
        fn, k = source.enclosing_func(c), source.enclosing_class(c)
        where = f"{k.name + '.' if k is not None else ''}{fn.name}"
        key = f"{_D}:{where}:Sampler:capacity-from-configuration"
        title = f"the sampler constructed in {where} holds reporting/{_CAP_KEY} samples"
        if cap_param is None:
            chk.ob(rid, title, True, c, "the queue is unbounded: nothing to configure, nothing is dropped", key=key)
            continue
        if any(isinstance(a, ast.Starred) for a in c.args) or any(kw.arg is None for kw in c.keywords):
            chk.unknown(rid, f"`{short(c, 70)}`: the arguments are unpacked, the value handed over as {cap_param} cannot be read off", c)
            continue
        arg = bind_args(c, init).get(cap_param)
        if arg is None:
            d = {x.arg: d_ for x, d_ in zip(reversed(init.args.posonlyargs + init.args.args), reversed(init.args.defaults))}.get(cap_param)
            chk.ob(rid, title, False, c, f"`{short(c, 70)}` does not pass {cap_param}: the queue holds the constructor's default of {u(d) if d is not None else '?'} samples, the configured "
                   f"reporting/{_CAP_KEY} is not consulted - every sample beyond that within one wake-up period is dropped", key=key)
            continue
        # the value handed over, as expressions over configuration reads: locals folded, an attribute of the constructing object replaced by what the class binds it to
        e0 = source.inline_node(arg, local_defs(fn), no_calls=False)
        attrs = sorted({n.attr for n in ast.walk(e0) if is_self_attr(n)})
        cands = [e0]
        lost = None
        for a_ in attrs:
            binds = [(n.value, m) for m in (drv.methods(k).values() if k is not None else ()) for n in walk_body(m) if isinstance(n, (ast.Assign, ast.AnnAssign)) and n.value is not None
                     and any(is_self_attr(t, a_) for t in (n.targets if isinstance(n, ast.Assign) else [n.target])) and not source.is_const(n.value, None)]
            if not binds or len(binds) > 4:
                lost = f"self.{a_} has {len(binds)} binding(s) in {k.name if k is not None else 'no class'}"
                break
            nxt = []
            for v, m in binds:
                v = source.inline_node(v, local_defs(m), no_calls=False)
                for e_ in cands:
                    class R(ast.NodeTransformer):
                        def visit_Attribute(self, n, a_=a_, v=v):
                            return source.clone(v) if is_self_attr(n, a_) else self.generic_visit(n)

                    nxt.append(R().visit(source.clone(e_)))
            cands = nxt
        if lost is not None:
            chk.unknown(rid, f"the value `{u(arg)}` handed to Sampler(...) as {cap_param} cannot be followed: {lost}", c)
            continue
        verdicts, defaults = [], {}
        for e_ in cands:
            reads = _config_reads(e_)
            mine = [(n, lits) for n, lits in reads if _CAP_KEY in lits]
            if not mine:
                free = [n for n in ast.walk(e_) if isinstance(n, (ast.Name, ast.Attribute, ast.Call)) and not (isinstance(n, ast.Call) and dotted(n.func) in ("int", "float", "max", "min", "round", "abs"))
                        and not (isinstance(n, ast.Name) and n.id in ("int", "float", "max", "min", "round", "abs"))]
                if reads:
                    verdicts.append((False, f"`{u(e_)[:120]}` reads {[l for _, l in reads]} from the configuration, not reporting/{_CAP_KEY}"))
                elif not free:
                    verdicts.append((False, f"`{u(e_)[:120]}` is a fixed capacity, the configured reporting/{_CAP_KEY} is not consulted"))
                else:
                    verdicts.append((None, f"`{u(e_)[:120]}` cannot be followed to a read of the configuration"))
                continue
            sect = [lits[0] for n, lits in mine if n.args and isinstance(n.args[0], ast.Constant) and lits and lits[0] != _CAP_KEY]
            if any(s_ != "reporting" for s_ in sect):
                verdicts.append((False, f"`{u(e_)[:120]}` reads {_CAP_KEY} from the section {sect} (documented: reporting)"))
                continue
            vals = []
            texts = {u(x) for x, _ in mine}
            for rep in (_CAP, str(_CAP)):
                class R2(ast.NodeTransformer):
                    def visit_Call(self, n, rep=rep):
                        return ast.Constant(value=rep) if u(n) in texts else self.generic_visit(n)

                try:
                    vals.append(_ev(R2().visit(source.clone(e_)), {}))
                except (CannotEval, TypeError, ValueError, KeyError, AttributeError, ZeroDivisionError):
                    vals.append(None)
            verdicts.append((None if any(v is None for v in vals) else all(isinstance(v, (int, float)) and not isinstance(v, bool) and v == _CAP for v in vals),
                             f"with reporting/{_CAP_KEY} = {_CAP} (number) / '{_CAP}' (text of an ini file) `{short(c, 60)}` is handed {cap_param} = {vals[0]!r} / {vals[1]!r}"))
            for n, _ in mine:
                dv = arg_of(n, None, "default_value")
                num = _const_number(dv) if dv is not None else None
                if num is not None and documented is not None:
                    defaults[u(n)] = (dv, num)
        for dv, num in defaults.values():
            chk.ob(rid, f"default of reporting/{_CAP_KEY} as documented", num == documented, c, f"default_value = {u(dv)} = {num}; docs/configuration.rst: {m_.group(0)[:70]} = {documented}",
                   key=f"{_D}:{where}:{_CAP_KEY}:documented-default")
        bad = [d for v, d in verdicts if v is False]
        unk = [d for v, d in verdicts if v is None]
        if bad:
            chk.ob(rid, title, False, c, bad[0], key=key)
        elif unk:
            chk.unknown(rid, f"the value handed to Sampler(...) as {cap_param}: {unk[0]}", c)
        else:
            chk.ob(rid, title, True, c, "; ".join(d for _, d in verdicts), key=key)


_BIG = 64  # a numeric bound the drain reads that is at least this large is evaluated scaled down (bound and queue lengths together): the verdict does not depend on its magnitude
_DRAIN_LENGTHS = (0, 1, 2, 3, 5, 8, 13, 21, 34, 55, 63, 64, 65, 100, 130)


def single_drain_rule(chk, rid, repo):
    """"Exactly one sample is recorded per executed request" rests on the hand-over sampler -> worker: the worker reads the sampler's draining routine ONCE after the last point at
    which the executor can add samples and then discards / replaces the sampler (O4.4, rules/C07.drain_before_drive_rule proves that one read is on every such path - not that
    one read suffices). Necessary condition, decided on VALUES with the statement interpreter and the queue model of rules/C07.py: ONE read of the draining routine hands out
    every queued sample - each exactly once - and leaves the queue empty, for EVERY number of queued samples. The routine is evaluated for queue lengths below, at and beyond
    every numeric bound it can read; a bound of 64 or more (a literal or constant expression of the Sampler class, class-level constants and defaults included) is read as a
    small representative value and the queue lengths are chosen around THAT value (bound and length scaled together - whether the drain stops at a bound does not depend on the
    bound's magnitude, and a queue of 2^20 samples is not walked element by element). A bound that comes from anywhere else is not evaluated: not recognised."""
    from rules import C07 as c7

    drv = repo.module(_D)
    chk.rule(rid, "one read of the sampler's draining routine hands out EVERY queued sample exactly once and leaves the queue empty, however many samples are queued (the worker "
             "reads it once after the last request of a task and then discards or replaces the sampler): evaluated against a model of the queue for lengths below, at and beyond "
             "every numeric bound the routine reads", 1,
             "a worker whose clients recorded more samples than the bound since the last periodic drain discards the rest with the sampler at the end of the task: requests "
             "without a sample, silently missing from latency / service time / processing time / throughput")
    S, q, smp, _, _ = c7._sampler_roles(drv)
    fn = drv.methods(S).get(smp.name, smp)
    bounds = set()
    seen = set()
    for n in ast.walk(S):
        if id(n) in seen or not isinstance(n, (ast.Constant, ast.BinOp, ast.UnaryOp)):
            continue
        v = _const_number(n)
        if v is None:
            continue
        seen.update(id(x) for x in ast.walk(n))  # (maximal constant expressions only)
        if isinstance(v, int) and not isinstance(v, bool) and v >= _BIG:
            bounds.add(v)
    scale = {v: 7 + 6 * i for i, v in enumerate(sorted(bounds))}
    read = {}

    class Scaled(c7._Interp):
        def ev(self, e, env):
            if isinstance(e, (ast.Constant, ast.BinOp, ast.UnaryOp)):
                v = _const_number(e)
                if isinstance(v, int) and not isinstance(v, bool) and v >= _BIG:
                    if v not in scale:
                        raise c7._Undecided(f"the number {v} read from outside the Sampler class")
                    read[v] = scale[v]
                    return scale[v]
            return c7._Interp.ev(self, e, env)

    def drain(n):
        items = c7._rep(n, "e")
        qm = c7._QueueModel(items)
        it = Scaled([drv])
        it.model = qm
        selfo = c7._O("sampler", S, drv, **{q: c7._T("global", c7._QueueModel.NAME)})
        try:
            return items, qm, it.call(c7._Fn(fn, drv, selfo), [], {}, fn), None
        except c7._Undecided:
            if it.raised is None:
                raise
            return items, qm, None, it.raised.v

    key = f"{_D}:Sampler.{smp.name}:one-read-hands-out-every-queued-sample"
    title = "one read of the draining routine returns every queued sample, whatever their number"
    try:
        bad = None
        lengths, done = list(_DRAIN_LENGTHS), set()
        while lengths and bad is None:
            n = lengths.pop(0)
            if n in done:
                continue
            done.add(n)
            known = dict(read)
            items, qm, ret, exc = drain(n)
            for v, k in read.items():  # a bound read for the first time: lengths around its representative value
                if v not in known:
                    lengths += [x for x in (k - 1, k, k + 1, 2 * k, 2 * k + 1, 3 * k + 2) if x not in done]
            unscaled = "".join(f" [the bound {v} of the Sampler class is read as {k}: a queue of {n} stands for one of {n - k} more than {v}]" for v, k in sorted(read.items()) if n > k)
            if exc is not None:
                bad = f"with {n} sample(s) queued the read ends with {c7._Interp.exc_name(exc) or repr(exc)}: the {qm.handed_out} sample(s) already dequeued are lost" + unscaled
            elif not isinstance(ret, (list, tuple)):
                chk.unknown(rid, f"the draining routine `{smp.name}` returns {ret!r}"[:140] + ": not a list of the queued samples", fn)
                return
            else:
                got = [sum(1 for x in ret if x is y) for y in items]
                if qm.pending() or any(c != 1 for c in got) or len(ret) != n:
                    bad = (f"with {n} sample(s) queued one read returns {sum(1 for c in got if c)} of them" + (f", {sum(1 for c in got if c > 1)} more than once" if any(c > 1 for c in got) else "")
                           + (f" and leaves {len(qm.pending())} in the queue: the worker that discards the sampler after its last read loses them" if qm.pending() else "") + unscaled)
        chk.ob(rid, title, bad is None, fn, bad or f"evaluated for queues of {', '.join(map(str, sorted(done)))} sample(s)" + (
            f" (numeric bounds read: {sorted(read)})" if read else " (the routine reads no numeric bound)") + ": all returned exactly once, queue empty afterwards", key=key)
    except (c7._Undecided, c7._Need) as x:
        chk.unknown(rid, f"the draining routine `{smp.name}` is not evaluated against the queue model: {x}", fn)


_R = "esrally/driver/runner.py"
_SUB_ROLES = ("absolute_time", "request_start", "service_time")


def _record_key(e):
    """the literal key under which e reads a record: `<x>["k"]` / `<x>.get("k")`; None for anything else"""
    if isinstance(e, ast.Subscript) and isinstance(e.slice, ast.Constant) and isinstance(e.slice.value, str):
        return e.slice.value
    if isinstance(e, ast.Call) and isinstance(e.func, ast.Attribute) and e.func.attr == "get" and e.args and isinstance(e.args[0], ast.Constant) and isinstance(e.args[0].value, str):
        return e.args[0].value
    return None


def subrequest_sample_keys(drv):
    """({role: key}, the Sample(...) construction) - the keys of the timing record of a sub-request from which a method of Sample builds the derived sample: by data flow, the
    key whose value is handed to the parameter of Sample.__init__ that is stored in the attribute of that role (issue time stamp, request start, service time)"""
    Sm = drv.cls("Sample")
    init = drv.methods(Sm).get("__init__")
    if init is None:
        raise AnchorMissing("Sample.__init__")
    attr_of = {n.value.id: n.targets[0].attr.lstrip("_") for n in walk_body(init) if isinstance(n, ast.Assign) and len(n.targets) == 1 and is_self_attr(n.targets[0])
               and isinstance(n.value, ast.Name) and n.value.id in params_of(init)}
    made = [(c, m) for m in drv.methods(Sm).values() for c in walk_body(m) if isinstance(c, ast.Call) and last_attr(c.func) == Sm.name]
    if len(made) != 1:
        raise AnchorMissing(f"the one method of Sample that derives the samples of sub-requests (constructs Sample(...) from a timing record): {len(made)} construction(s) found")
    c, m = made[0]
    if any(isinstance(a, ast.Starred) for a in c.args) or any(k.arg is None for k in c.keywords):
        raise AnchorMissing(f"the arguments of `{short(c, 60)}` in Sample.{m.name} are unpacked")
    b, d = bind_args(c, init), all_defs(m)
    keys = {}
    for role in _SUB_ROLES:
        ps = [p for p, a in attr_of.items() if a == role and p in b]
        k = _record_key(_root(b[ps[0]], d)) if len(ps) == 1 else None
        if k is None:
            raise AnchorMissing(f"the key of the timing record that Sample.{m.name} reads for Sample.{role}" + (f" (`{u(b[ps[0]])}`)" if len(ps) == 1 else ""))
        keys[role] = k
    return keys, c


def subrequest_sample_rule(chk, rid, repo):
    """The samples of the sub-requests of a composite operation are requests like any other: their service time is the span of their OWN request context and they carry THEIR issue
    time (docs/metrics.rst: the time stamp of a request metric is when Rally issued the request). They are not built by the request loop but from a timing record: roles by data
    flow - the consumer is the method of Sample that constructs Sample(...) from the values of a record (subrequest_sample_keys gives the key per role), a producer is a dict
    display in the runner module that has all those keys. For every producer, in the function it is written in: the value under the issue-time key is ONE reading of the wall
    clock that is taken before the request is sent - the reading dominates every await inside the request context `with <client>.new_request_context()`, is reached from no await
    of that function and no other await lies between it and the context (control-flow graph); the value under the request-start key is the context's request_start and the one
    under the service-time key is request_end - request_start of the same context (formulas with the single-assignment locals folded)."""
    drv, rmod = repo.module(_D), repo.module(_R)
    chk.use(rmod)
    chk.rule(rid, "a sample derived for a sub-request of a composite operation is stamped and timed like any request: in every producer of the timing record that Sample turns "
             "into a sample, the issue time is one reading of the wall clock taken before the sub-request is sent (before every await inside its request context, after no "
             "await), request_start is the context's request_start and service_time is request_end - request_start of that same context", 3,
             "every sub-request of a composite operation is recorded with the time its response arrived as issue time (off by its service time against request_start / "
             "relative_time of the same sample), or with a span that is not its own")
    keys, ctor = subrequest_sample_keys(drv)
    want = set(keys.values())
    prods = [n for n in ast.walk(rmod.tree) if isinstance(n, ast.Dict) and want <= {k.value for k in n.keys if isinstance(k, ast.Constant) and isinstance(k.value, str)}]
    if not prods:
        raise AnchorMissing(f"a dict display in {_R} with the keys {sorted(want)} that Sample reads from the timing record of a sub-request")
    for D in prods:
        F = source.enclosing_func(D)
        if F is None:
            chk.unknown(rid, f"the timing record `{short(D, 60)}` is not built inside a function", D)
            continue
        where = source.qualname(D)
        val = {k.value: v for k, v in zip(D.keys, D.values) if isinstance(k, ast.Constant)}
        defs = all_defs(F)
        withs = [(w, i) for w in walk_body(F) if isinstance(w, ast.With) for i in w.items if "new_request_context" in u(i.context_expr)]
        if len(withs) != 1:
            chk.unknown(rid, f"{where}: {len(withs)} request context(s) `with ... new_request_context()` in the function that builds the timing record", D)
            continue
        W, item = withs[0]
        ctxvar = item.optional_vars.id if isinstance(item.optional_vars, ast.Name) else None
        g = cfg_of(F)
        awaits = [n for n in walk_body(F) if isinstance(n, ast.Await)]
        inside = [a for a in awaits if any(x is W for x in source.ancestors(a))]
        if not inside:
            chk.unknown(rid, f"{where}: nothing is awaited inside the request context of the function that builds the timing record (the sub-request is not located)", W)
            continue
        # -- issue time ------------------------------------------------------------------------------------------------------------------------------
        V = val[keys["absolute_time"]]
        r = _root(V, defs)
        key = f"{_R}:{where}:sub-request:issue-time-before-the-request"
        title = "the issue time of a sub-request's sample is a reading of the wall clock taken before the sub-request is sent"
        if _clock_name(r) is None or r.args or r.keywords:
            if isinstance(V, ast.Name) and V.id not in defs and V.id not in _all_params(F) and all(
                    _clock_name(n.value) is not None for n in walk_body(F) if isinstance(n, ast.Assign) and any(isinstance(t, ast.Name) and t.id == V.id for t in n.targets)) and any(
                    isinstance(n, ast.Assign) and any(isinstance(t, ast.Name) and t.id == V.id for t in n.targets) for n in walk_body(F)):
                chk.ob(rid, title, False, V, f"`{V.id}` is read from the clock more than once in {F.name}: the record carries the LAST reading, not the one taken when the request was issued", key=key)
            else:
                chk.unknown(rid, f"{where}: the issue time `{u(V)}` of the timing record is not one reading of a clock taken in {F.name}", V)
        else:
            S_ = source.enclosing_stmt(r)
            ns = g.node_of(S_)
            after = [a for a in awaits if g.node_of(source.enclosing_stmt(a)) is not ns and g.path_exists(g.node_of(source.enclosing_stmt(a)), ns)]
            not_dom = [a for a in inside if not g.dominated_by_nodes(g.node_of(source.enclosing_stmt(a)), [ns])]
            gap = [a for a in awaits if a not in inside and g.node_of(source.enclosing_stmt(a)) is not ns and g.path_exists(ns, g.node_of(source.enclosing_stmt(a)))
                   and any(g.path_exists(g.node_of(source.enclosing_stmt(a)), g.node_of(source.enclosing_stmt(b))) for b in inside)]
            same = [a for a in awaits if g.node_of(source.enclosing_stmt(a)) is ns]
            wall = _clock_name(r) == "time.time"
            if same:
                chk.unknown(rid, f"{where}: the clock reading `{short(S_, 60)}` and an await are written in one statement", S_)
                continue
            ok = wall and not after and not not_dom and not gap
            detail = f"`{u(V)}` = `{short(S_, 70)}`" + (
                "" if ok else f": read from {_clock_name(r)}, not the wall clock" if not wall else
                f": the reading is taken after `{short(after[0], 50)}` has returned - when the response of the sub-request arrived, not when it was issued (off by the service time)" if after else
                f": the reading is not taken on every path before `{short(not_dom[0], 50)}`" if not_dom else f": `{short(gap[0], 50)}` is awaited between the reading and the request")
            chk.ob(rid, title, ok, S_, detail, key=key)
        # -- the spans -------------------------------------------------------------------------------------------------------------------------------
        for role, formula in (("request_start", "{c}.request_start"), ("service_time", "{c}.request_end - {c}.request_start")):
            e = inline_node(val[keys[role]], defs)
            title = f"{role} of a sub-request's sample = {formula.format(c='ctx')} of its own request context"
            key = f"{_R}:{where}:sub-request:{role}"
            if ctxvar is None:
                chk.unknown(rid, f"{where}: the request context is not bound to a local (`with ... as ctx`)", W)
                continue
            ok = rat_equal(e, parse_expr(formula.format(c=ctxvar)))
            in_clock = {id(x) for n in ast.walk(e) if _clock_name(n) is not None for x in ast.walk(n)}  # (a reading of a clock written into the formula is a located value)
            foreign = [n for n in ast.walk(e) if id(n) not in in_clock and (isinstance(n, (ast.Call, ast.Await)) and _clock_name(n) is None) or (id(n) not in in_clock and isinstance(n, ast.Name) and n.id != ctxvar and (n.id not in defs or isinstance(defs[n.id], (ast.Call, ast.Await))) and
                                                                                       _clock_name(defs.get(n.id)) is None)]
            if not ok and foreign:
                chk.unknown(rid, f"{where}: {role} = `{u(e)}` holds the result of a call / a value that cannot be read as a formula over the request context", val[keys[role]])
            else:
                chk.ob(rid, title, ok, val[keys[role]], f"{role} = {u(e)}", key=key)


def failure_results(drv):
    """[(number of operations, unit, handler)] that execute_single reports from its absorbing handlers (the handler's own binding of the member of the result triple, else the
    default bound unconditionally before the request's try); a member that is not one literal is None"""
    es = drv.func("execute_single")
    ge = cfg_of(es)
    trys = [n for n in walk_body(es) if isinstance(n, ast.Try)]
    rets = [n for n in source.flat(es.body) if isinstance(n, ast.Return)]
    rv = _root(rets[0].value, local_defs(es)) if len(rets) == 1 and rets[0].value is not None else None
    triple = [x.id for x in rv.elts] if isinstance(rv, ast.Tuple) and len(rv.elts) == 3 and all(isinstance(x, ast.Name) for x in rv.elts) else None
    if not trys or triple is None:
        raise AnchorMissing("execute_single: the request's try and the single result tuple (operations, unit, meta data)")
    flat_ = source.flat(es.body)
    before_try = flat_[:([i for i, s_ in enumerate(flat_) if s_ is trys[0]] or [0])[0]]
    out = []
    for h in trys[0].handlers:
        if not any(ge.exit.id in ge.reachable([x]) for x in ge.by_ast.get(id(h), [])):
            continue

        def lit(name):
            srcs = value_sources(es, name, drv, region=h.body) or [x for x in value_sources(es, name, drv, region=before_try) if not guards(x[1])][-1:]
            vals = {x[0].value for x in srcs if isinstance(x[0], ast.Constant)}
            return vals.pop() if srcs and len(vals) == 1 and all(isinstance(x[0], ast.Constant) for x in srcs) else None

        out.append((lit(triple[0]), lit(triple[1]), h))
    return out


def _split(items, sep):
    out, cur = [], []
    for x in items:
        if x == sep:
            out.append(cur)
            cur = []
        else:
            cur.append(x)
    return [p for p in out + [cur] if p]


class _RequestsRun:
    """One walk of AsyncExecutor.__call__ by the value machine of rules/C05.py (a general interpreter of the analysed statements on stand-in objects; no repository code runs)
    through len(outcomes) requests: `execute_single` is a stand-in that returns outcomes[i] = (operations, unit, meta data) for the i-th request - the result triples the real
    function reports -, the schedule handle and every other constructor argument of the executor are recording stand-ins, clocks are virtual. Everything after the request -
    the feedback to the schedule, the formulas, the hand-over to the sampler - is walked as written, helpers included.
      events   in program order: ('request', i) | ('handle', method, args, kwargs) | ('other', constructor parameter, method, args, kwargs)
      error    name of the exception that left the executor (None: it returned)"""

    def __init__(self, drv, outcomes):
        from rules.C05 import _MISSING, _Cls, _ctor_params, _ExecutorRun, _Machine, _Obj, _Rse

        AE = drv.cls("AsyncExecutor")
        names = _ctor_params(drv, AE)
        handle_at = _ExecutorRun.handle_param(drv)
        self.events, self.error, self.clock = [], None, [100.0]
        self.metas = [dict(o[2]) for o in outcomes]
        run = self
        runner = _Obj("runner", completed=None, percent_completed=None)

        def handle_load(attr):
            return 0 if attr == "ramp_up_wait_time" else _MISSING

        def handle_call(attr, args, kwargs):
            if attr == "__call__":
                return [(0.5 * (i + 1), f"sample type {i}", 0.1 * (i + 1), runner, {"body": i}) for i in range(len(outcomes))]
            run.events.append(("handle", attr, list(args), dict(kwargs)))
            return None

        def recorder(nm):
            def on_call(attr, args, kwargs):
                if attr == "is_set":
                    return False
                run.events.append(("other", nm, attr, list(args), dict(kwargs)))
                return None

            return _Obj(f"constructor argument `{nm}`", on_call=on_call, any_completes_parent=False, completes_parent=False)

        def request(attr, args, kwargs):
            if attr != "__call__":
                return _MISSING
            i = sum(1 for e in run.events if e[0] == "request")
            if i >= len(outcomes):
                raise CannotEval("the executor issues more requests than the schedule holds")
            run.events.append(("request", i))
            return (outcomes[i][0], outcomes[i][1], run.metas[i])

        def opaque_call(f, args, kwargs):
            if f.label in ("time.perf_counter", "time.monotonic") and not args and not kwargs:
                return run.clock[0]
            if f.label == "time.time" and not args and not kwargs:
                return 1.7e9 + run.clock[0]
            if f.label == "asyncio.sleep":
                d = args[0] if args else None
                if not isinstance(d, (int, float)) or isinstance(d, bool):
                    raise CannotEval(f"sleep duration {d!r}")
                run.clock[0] += max(d, 0)
                return None
            return _MISSING

        handle = _Obj("schedule handle", on_load=handle_load, on_call=handle_call)
        self.machine = m = _Machine(drv, on_opaque_call=opaque_call, overrides={"execute_single": _Obj("execute_single", on_call=request)})
        try:
            ex = m.instantiate(_Cls(AE), [handle if nm == handle_at else recorder(nm) for nm in names], {})
            m.call(m.load(ex, "__call__"), [], {})
        except _Rse as x:
            self.error = x.name()

    def after(self, i):
        """the events between the i-th request and the next one (or the end)"""
        out, on = [], False
        for e in self.events:
            if e[0] == "request":
                on = e[1] == i
            elif on:
                out.append(e)
        return out


def failed_request_feedback_rule(chk, rid, repo):
    """With on-error=continue a failed request is an executed request like any other: it yields exactly one sample and the task goes on - for every target throughput, weight /
    unit and error outcome. Between the finished request and the hand-over to the sampler the executor feeds the request's result back to the schedule (the unit-aware scheduler
    learns the weight of a request from it and validates its unit against the unit of the target throughput). execute_single reports EVERY absorbed failure uniformly as zero
    operations in the unit "ops" - whatever the operation reports when it succeeds - so this feedback must ignore such a result: if it raises (unit "ops" != "docs" of a target
    given in docs/s, a division by the zero weight) the exception leaves the loop before the sample is recorded and aborts the task; if it takes the zero / foreign weight the
    pacing of all later requests is off. Decided on VALUES, end to end, with the interpreter of rules/C05.py:
      1. the failure results are read off execute_single's absorbing handlers (failure_results);
      2. AsyncExecutor.__call__ is walked through a sequence of successful and failed requests (execute_single replaced by a stand-in returning those triples, _RequestsRun):
         every request must hand exactly one sample to a constructor argument of the executor (the sampler), the failed ones included, and the executor must not raise;
      3. the calls the walk makes on the schedule handle after each request with that request's result are replayed on the REAL handle (built by walking schedule_for, its
         scheduler a recording stand-in) and what reaches the scheduler is replayed on the real unit-aware scheduler (built by walking its constructor with the arguments in the
         roles scheduler_for passes them, the module's deterministic scheduler as delegate) for targets given in docs/s, ops/s and pages/s: no call may raise, and the gap between
         consecutive requests (read off next(0)) must be weight * clients / target after a successful request and UNCHANGED after a failed one.
    No name of a local, parameter or attribute of the executor, the handle or the scheduler is consulted (the scheduler API methods are whatever the walk calls)."""
    from rules.C05 import _Cls, _close, _entry_origins, _Machine, _Obj, _Rse, _ScheduleRun, _unknown

    drv, sch = repo.module(_D), repo.module(_S)
    chk.use(sch)
    chk.rule(rid, "a failed request (execute_single reports it as zero operations in the unit 'ops', success False) is an executed request like any other: the executor hands exactly "
             "one sample to the sampler and goes on, and the feedback of its result to the schedule neither raises nor changes the pacing - whatever unit the target throughput is given in", 4,
             "on-error=continue, a task throttled in docs/s / pages/s / MB/s and a request that fails (HTTP 429, a time-out): the exception leaves the request loop before the sample "
             "is recorded - an executed request without a sample - and the task aborts although errors are to be recorded and skipped")
    exf = drv.methods(drv.cls("AsyncExecutor")).get("__call__")
    fails = failure_results(drv)
    pairs = sorted({(o, un) for o, un, _ in fails if o is not None and un is not None}, key=repr)
    if not pairs or any(o is None or un is None for o, un, _ in fails):
        chk.unknown(rid, "the (operations, unit) execute_single reports for an absorbed failure is not a pair of literals in every handler: "
                    f"{[(o, un) for o, un, _ in fails]}", fails[0][2] if fails else drv.func("execute_single"))
        return
    C = 4
    UA = sch.cls("UnitAwareScheduler")
    sf = sch.func("scheduler_for")
    if not params_of(sf):
        raise AnchorMissing("scheduler_for(task)")
    sfp = params_of(sf)[0]
    ctor = []
    for c in ast.walk(sch.tree):
        if isinstance(c, ast.Call) and last_attr(c.func) == UA.name and source.enclosing_func(c) is not None and not any(isinstance(a, ast.Starred) for a in c.args) \
                and not any(k_.arg is None for k_ in c.keywords):
            from_task = [sfp in _entry_origins(sch, sf, a, same=True) for a in list(c.args) + [k_.value for k_ in c.keywords]]
            if from_task.count(True) == 1 and len(from_task) == 2:
                ctor.append((c, from_task))
    if len(ctor) != 1:
        raise AnchorMissing(f"the construction UnitAwareScheduler(<the task scheduler_for is called with>, <delegate class>) in scheduler_for or a helper it calls ({len(ctor)} found)")
    (ctor_site, ctor_from_task), = ctor
    ua_fn = sch.methods(UA).get("after_request") or UA

    def fail_meta():
        return {"success": False, "error-type": "api", "error-description": "rejected", "http-status": 429}

    def carried(e, i, seq, run):
        vals = list(e[-2]) + list(e[-1].values())
        return any(v is run.metas[i] for v in vals) or (any(v is not run.metas[i] and v == seq[i][0] and not isinstance(v, bool) for v in vals) and any(v == seq[i][1] for v in vals if isinstance(v, str)))

    hr = _ScheduleRun(drv, {"warmup_iterations": 3, "iterations": 7})
    if not isinstance(hr.handle, _Obj) or hr.scheduler is None:
        raise AnchorMissing("the ScheduleHandle object schedule_for returns, with the scheduler scheduler_for gave it" + (f" (schedule_for raises {hr.error})" if hr.error else ""))
    reached = []
    hr.scheduler.on_call = lambda attr, a, k: reached.append((attr, list(a), dict(k)))

    def drive(T, U, seq):
        """seq: [(operations, unit, meta data)] -> (rows, not recognised): one row (error | None, gap after the request, samples handed over, feedback calls) per request"""
        run = _RequestsRun(drv, seq)
        m = _Machine(sch)
        task = _Obj("task", target_throughput=_Obj("throughput", value=T, unit=U), clients=C, name="t")
        vals = [task if t else _Cls(sch.cls("DeterministicScheduler")) for t in ctor_from_task]
        n_pos = len(ctor_site.args)
        ua = m.instantiate(_Cls(UA), vals[:n_pos], {k_.arg: v for k_, v in zip(ctor_site.keywords, vals[n_pos:])})
        rows = []
        for i in range(len(seq)):
            evs = run.after(i)
            samples = [e for e in evs if e[0] == "other" and any(v is run.metas[i] for v in list(e[3]) + list(e[4].values()))]
            feedback = [e for e in evs if e[0] == "handle" and carried(e, i, seq, run)]
            err = None
            for _, attr, a, k in feedback:
                del reached[:]
                try:
                    hr.machine.call(hr.machine.load(hr.handle, attr), a, k)
                except _Rse as x:
                    err = err or f"the schedule handle's {attr}() raises {x.name()}"
                for attr2, a2, k2 in list(reached):
                    try:
                        m.call(m.load(ua, attr2), a2, k2)
                    except _Rse as x:
                        err = err or f"the scheduler's {attr2}({', '.join(repr(v) if not isinstance(v, dict) else '{..}' for v in a2)}) raises {x.name()}"
            try:
                gap = m.call(m.load(ua, "next"), [0.0], {})
            except _Rse as x:
                gap = f"raises {x.name()}"
            rows.append((err, gap, len(samples), len(feedback)))
        return rows, run

    fo, fu = pairs[0]
    # ---- 2. one sample per executed request, failed or not -----------------------------------------------------------------------------------------------------
    for fo_, fu_ in pairs:
        seq = [(5000, "docs", {"success": True}), (fo_, fu_, fail_meta()), (5000, "docs", {"success": True})]
        run = _RequestsRun(drv, seq)
        n_req = sum(1 for e in run.events if e[0] == "request")
        per = [sum(1 for e in run.after(i) if e[0] == "other" and any(v is run.metas[i] for v in list(e[3]) + list(e[4].values()))) for i in range(n_req)]
        if n_req == 0 or (run.error is None and not any(per)):
            chk.unknown(rid, "the walk of AsyncExecutor.__call__ through a successful, a failed and a successful request " +
                        ("issues no request" if n_req == 0 else "never hands the meta data of a request to a constructor argument of the executor (the sampler is not recognised)"), exf)
            continue
        ok = run.error is None and n_req == len(seq) and per == [1] * len(seq)
        chk.ob(rid, f"a failed request ({fo_!r} {fu_!r}, success False) yields exactly one sample and the executor goes on", ok, exf,
               f"requests: ok (5000 docs), failed ({fo_!r} {fu_!r}), ok (5000 docs) with a recording schedule handle: {n_req} request(s) executed, samples handed over per request {per}"
               + (f", the executor raises {run.error}" if run.error else ""), key=f"{_D}:AsyncExecutor.__call__:failed-request:one-sample-and-go-on:{fo_!r}-{fu_}")
    # ---- 3. the feedback of a failed request to the schedule -------------------------------------------------------------------------------------------------------
    for T, U, w, wu in ((1000.0, "docs/s", 5000, "docs"), (100.0, "ops/s", 3, "ops"), (10.0, "pages/s", 5, "pages")):
        seqs = [[(w, wu, {"success": True}), (fo, fu, fail_meta()), (w, wu, {"success": True}), (w // 2 or 1, wu, {"success": True})],
                [(fo, fu, fail_meta()), (w, wu, {"success": True})]]
        problems, shown, lost = [], [], None
        for seq in seqs:
            rows, run = drive(T, U, seq)
            if any(r[3] == 0 for r in rows):
                lost = lost or "the walk of the executor makes no call on the schedule handle that carries the result of a request (no feedback to replay)"
                continue
            if _unknown([r[1] for r in rows]) is not None:
                lost = lost or f"next(0) of the unit-aware scheduler gives a value the walk does not know ({_unknown([r[1] for r in rows])!r})"
                continue
            prev = 0
            for (ops, unit, meta), (err, gap, _, _) in zip(seq, rows):
                failed = not meta["success"]
                want = prev if failed else ops * C / T
                what = f"{'failed' if failed else 'ok'} ({ops!r} {unit})"
                shown.append(f"{what} -> gap {gap if not isinstance(gap, float) else format(gap, 'g')}s" + (f" [{err}]" if err else ""))
                if err and failed:
                    problems.append(f"after a {what} request {err}")
                elif not err and failed and not (_close(gap, want) if want else (gap == 0 and not isinstance(gap, bool))):
                    problems.append(f"a {what} request changes the gap between requests from {prev:g}s to {gap!r}s")
                elif not failed and (err or not _close(gap, want)):
                    problems.append(f"after a {what} request " + (err or f"the gap is {gap!r}s (expected {want:g}s)"))
                prev = gap if isinstance(gap, (int, float)) and not isinstance(gap, bool) else prev
            shown.append("|")
        shown = "; ".join(", ".join(part) for part in _split(shown, "|"))
        if lost is not None and not problems:
            chk.unknown(rid, f"target throughput {T:g} {U}: {lost}", ua_fn)
            continue
        chk.ob(rid, f"target in {U}: the feedback of a failed request neither raises nor changes the pacing", not problems, ua_fn,
               f"{C} clients, target {T:g} {U}, failure result ({fo!r} {fu!r}); " + shown + ("" if not problems else " - " + "; ".join(problems[:2])
               + ": the exception leaves the request loop before the sample is recorded and aborts the task" * bool(any("raises" in p for p in problems))),
               key=f"{_S}:UnitAwareScheduler.after_request:failed-request-ignored:{U}")


def may_carry(a, src, scope_func, defs, mod, depth=3):
    """the expression a can evaluate to the value of the local `src` on some path: it is that name, a local bound to such an expression (any of its bindings in scope_func),
    an arm of a conditional expression / operand of `or` / `and`, or the result of a helper (method of the class / function of the module) that returns the parameter this
    value is bound to - on some path, through its own locals"""
    if src is None or depth < 0:
        return False
    if isinstance(a, ast.Name):
        if a.id == src:
            return True
        if a.id in defs:
            return may_carry(defs[a.id], src, scope_func, defs, mod, depth - 1)
        vals = [n.value for n in ast.walk(scope_func) if isinstance(n, ast.Assign) and any(isinstance(t, ast.Name) and t.id == a.id for t in n.targets)]
        return any(may_carry(v, src, scope_func, defs, mod, depth - 1) for v in vals)
    if isinstance(a, ast.IfExp):
        return may_carry(a.body, src, scope_func, defs, mod, depth) or may_carry(a.orelse, src, scope_func, defs, mod, depth)
    if isinstance(a, ast.BoolOp):
        return any(may_carry(v, src, scope_func, defs, mod, depth) for v in a.values)
    if isinstance(a, ast.Await):
        return may_carry(a.value, src, scope_func, defs, mod, depth)
    if isinstance(a, ast.Call):
        callee = resolve_callee(a, mod, defs)
        if callee is None:
            return False
        carriers = [p for p, x in bind_args(a, callee).items() if may_carry(x, src, scope_func, defs, mod, depth - 1)]
        hdefs = all_defs(callee)
        return any(may_carry(r.value, p, callee, hdefs, mod, depth - 1) for r in walk_body(callee) if isinstance(r, ast.Return) and r.value is not None for p in carriers)
    return False


def flow_roles(L, defs, ctxvar, total_start, res, mod, sched, expand=None):
    """label of EXPECTED_FLOW -> predicate deciding whether an argument expression of the loop's sampler.add call IS that value. The value is recognised by data flow only:
    its position in the schedule tuple / in the unpacked runner result, the clock read defining it, its formula over the request context, the key popped from the meta data,
    the schedule value it can carry (also through a helper that returns it). Local variable names play no role (the labels are the names in the frozen source and only serve
    as stable obligation keys)."""
    lt = [x.id if isinstance(x, ast.Name) else None for x in (L.target.elts if isinstance(L.target, ast.Tuple) else [])] + [None] * 3
    ops, unit, meta = (list(res or []) + [None] * 3)[:3]
    fn = source.enclosing_func(L)

    def inl(a):
        hv = expand(a) if expand is not None else None  # a value computed by a helper that returns one expression reads like that expression
        return hv if hv is not None else inline_node(a, defs)

    def is_name(a, nm):
        e = _root(a, defs)
        return nm is not None and isinstance(e, ast.Name) and e.id == nm

    def clock(a, fn_):  # a local assigned inside the loop from one read of the clock `fn_`
        d = _root(a, defs)
        return isinstance(a, ast.Name) and _clock_name(d) == fn_ and L in list(source.ancestors(d))

    def formula(a, text):
        return ctxvar is not None and total_start is not None and rat_equal(inl(a), parse_expr(text))

    def popped(a, key):  # <meta>.pop(key, None), directly or through a single-assignment local
        return meta is not None and pat.is_(_root(a, defs), f"V_m.pop('{key}', None)", binds={"m": meta})

    def clock_span(a):
        e = inl(a)
        return isinstance(e, ast.BinOp) and isinstance(e.op, ast.Sub) and clock(e.left, "time.perf_counter") and clock(e.right, "time.perf_counter")

    def on_schedule(a):  # the one value that is conditional on the scheduled time (its formula is O4.1's business)
        e = _root(a, defs)
        if not isinstance(e, ast.IfExp) and expand is not None and expand(a) is not None:
            e = expand(a)
        return isinstance(e, ast.IfExp) and any(isinstance(n, ast.Name) and n.id == sched for n in ast.walk(inline_node(e.test, defs)))

    return {
        "self.task": lambda a: u(_root(a, defs)) == "self.task",  # also through a local alias hoisted out of the loop
        "self.client_id": lambda a: u(_root(a, defs)) == "self.client_id",
        "sample_type": lambda a: is_name(a, lt[1]),  # second element of the schedule tuple
        "request_meta_data": lambda a: is_name(a, meta),  # third element of the runner's result
        "absolute_processing_start": lambda a: clock(a, "time.time"),  # the wall-clock stamp
        "request_start": lambda a: ctxvar is not None and u(inl(a)) == f"{ctxvar}.request_start",
        "latency": on_schedule,
        "service_time": lambda a: formula(a, f"{ctxvar}.request_end - {ctxvar}.request_start"),
        "processing_time": clock_span,  # difference of two monotonic clock reads of this iteration
        "throughput": lambda a: popped(a, "throughput"),
        "total_ops": lambda a: is_name(a, ops),  # first element of the runner's result
        "total_ops_unit": lambda a: is_name(a, unit),  # second element of the runner's result
        "time_period": lambda a: formula(a, f"{ctxvar}.request_end - {total_start}"),
        "progress": lambda a: may_carry(a, lt[2], fn, defs, mod),  # can carry the schedule's percent-completed (third element of the schedule tuple)
        "request_meta_data.pop('dependent_timing', None)": lambda a: popped(a, "dependent_timing"),
    }


def run(chk):
    repo = chk.repo
    drv, ctx = repo.module(_D), repo.module(_C)
    chk.use(drv, ctx, "docs/metrics.rst")
    chk.explanation = (
        "Roles are located by data flow (which value reaches which Sample attribute through Sampler.add, positions of the schedule tuple and of the runner's result, clock "
        "reads), helpers of the executor / functions of the module are followed (an extracted sleep-until, progress selection, latency formula, ramp-up wait, result "
        "normalisation, failure recorder; the request itself - request context, runner invocation, reads of start / end, also the clock reads around it - extracted into a "
        "coroutine the loop awaits directly: the awaiting statement takes the place of the `with` in the loop's control-flow graph, results are followed by position through "
        "return tuples), a formula over the opaque result of a call is not recognised instead of wrong, conditions are decided on representative values (scheduled time, time left, result / on_error / error flag, exception classes of "
        "the library); a role that cannot be located is reported as not recognised (exit 2), never as a violation. "
        "Decides the timing formulas and their program order in the request loop against the definitions in docs/metrics.rst: service_time = request_end - request_start "
        "of the request's own context; processing_time = processing_end - processing_start bracketing that context; latency = request_end - (schedule start + scheduled time) iff "
        "throttled (scheduled > 0), else service_time; the sleep-until idiom on the same scheduled time precedes the request; the issue time stamp is taken after the wait; "
        "exactly one sampler.add per request on every normal path; positional field flow loop -> Sampler.add -> Sample attributes; uniform error result and abort condition; "
        "the zero point of the throughput schedule (what the throttled latency adds to the scheduled time) is a clock reading not earlier than the end of the client's "
        "ramp-up wait, decided by walking the extracted start-up statements on a virtual clock (O4.7); a wire request of the async client that fails at any stage has its end "
        "recorded on every exceptional exit of the client's perform_request chain (O4.8). "
        "Decided on values with the statement interpreter of rules/C05.py: the timer that decides the sample type of a request starts at the executor's entry, before the "
        "ramp-up wait (O4.9, obligation owned by C05); the executor is walked through successful and failed requests - the result triples execute_single reports - and must "
        "hand exactly one sample per request to the sampler, and the feedback calls it makes on the schedule handle are replayed on the real handle and the real unit-aware "
        "scheduler for targets in docs/s, ops/s and pages/s: a failed request neither raises nor changes the pacing (O4.10); the capacity of the sampler's bounded queue - "
        "the one place where a recorded sample is dropped - is the constructor argument, and every Sampler(...) of the driver is handed the configured "
        "reporting/sample.queue.size with the documented default (O4.11, data flow + evaluation on a representative capacity)."
    )
    chk.not_decided = ("numeric non-negativity (clock behaviour), growth of latency while behind schedule as a number, behaviour of third-party trace callbacks, whether the "
                       "configured sample queue size suffices for the request rate of a run (a runtime quantity), schedulers registered by track plugins.")
    doc = repo.text("docs/metrics.rst")
    chk.rule("O4.0", "docs/metrics.rst still defines latency, service_time and processing_time as encoded in the formula table", 3, "the oracle moved")
    for key, phrase in (("latency", "``latency``: Time period between submission of a request and receiving the complete response"),
                        ("service_time", "``service_time`` Time period between sending a request and receiving the corresponding response"),
                        ("processing_time", "``processing_time`` Time period between start of request processing and receiving the complete response")):
        found = phrase in doc
        if not found:
            # tolerate re-wording: the three metric names must at least be documented
            found = f"``{key}``" in doc
            chk.adv("O4.0", f"wording of the {key} definition in docs/metrics.rst changed; formulas are still checked against the frozen definition", None)
        chk.ob("O4.0", f"{key} documented", found, "docs/metrics.rst", "")

    call, L = request_loop(drv)
    g = cfg_of(call)
    defs = all_defs(call)  # single-assignment locals, and locals bound by the arms of one if/else chain (read as conditional expressions)
    Lh = g.node_of(L)
    sched = L.target.elts[0].id if isinstance(L.target, ast.Tuple) and isinstance(L.target.elts[0], ast.Name) else None
    if sched is None:
        raise AnchorMissing("schedule tuple target of the request loop")
    root_sc = _Scope(call, defs)
    # the request of the iteration: the `with <client>.new_request_context()` around the runner invocation, written in the loop or in a helper the loop awaits directly
    req = locate_request(L, root_sc, drv)
    defs.update(req.defs)  # locals of the loop that the helper's result binds to formulas over the request context read like those formulas
    defs.update(helper_result_defs(root_sc, drv, skip=[Rq_ for Rq_ in [req.stmt] if req.in_helper]))  # ... and to plain formulas that other helpers return by position
    Wn, Rq, ctxvar = req.with_, req.stmt, req.ctxvar  # Rq: the statement of the loop's function that performs the request (Wn itself when it is written in the loop)
    run_sites = runner_calls(req, L, drv)
    if not run_sites:
        raise AnchorMissing("runner invocation (execute_single) in the request loop (directly or in a helper awaited for the request)")
    runs = [r for r, _, _ in run_sites]
    triple = result_names(run_sites[0][0], run_sites[0][2])  # the locals of the loop that hold the runner's result, by position
    samp_add, ctor0, attr_of_add_param, b2 = sample_field_flow(drv)
    handovers = sample_handovers(L, root_sc, drv, samp_add)
    if not handovers:
        raise AnchorMissing(f"call of Sampler.{samp_add.name}(...) in the request loop (directly or in a helper of the executor called from it)")
    adds = [c for c, _, _ in handovers]
    addc, b1, add_always = handovers[0]  # the call of the loop that records the sample; parameter of Sampler.add -> expression of the loop
    total_start = task_start_of(call, L, g, defs)  # anchors time_period; the schedule's zero point is a role of its own (see the throttled latency below and O4.7)

    def arg_named(attr):
        """the expression of the loop that lands in Sample.<attr>: followed through the parameter of Sampler.add that the Sample(...) construction stores there (the
        parameter's own name plays no role)"""
        ps = [p for p, a in attr_of_add_param.items() if a == attr and p in b1]
        return b1[ps[0]] if len(ps) == 1 else None

    def not_located(rid, what, node=None):
        chk.unknown(rid, f"{what}: not recognised in this shape of the request loop", node if node is not None else addc)

    def expand(a):
        """the expression behind a value that a helper computes (`x = self._f(..)` with a helper that only computes and returns one expression, possibly chosen by if / else):
        the helper's expression over the names of this function; None for anything else"""
        r = _root(a, defs)
        return helper_value(r, root_sc, drv) if isinstance(r, (ast.Call, ast.Await)) else None

    def formula_of(a):
        hv = expand(a)
        return hv if hv is not None else inline_node(a, defs)

    # a formula can only be judged when every value in it is known: a local bound by unpacking something that could not be read position by position (the result of a call, a
    # slice of it), or to the result of a call that is neither a clock read nor a helper whose expression could be read (expand), is the OPAQUE result of that call - the
    # formula is not recognised, never wrong on account of it
    unpacked_locals = {x.id for n in walk_body(call) if isinstance(n, ast.Assign) for t in n.targets if isinstance(t, (ast.Tuple, ast.List)) for x in ast.walk(t) if isinstance(x, ast.Name)}

    def opaque_in(*exprs):
        out = []
        for e in exprs:
            for n in ast.walk(e) if e is not None else ():
                if isinstance(n, ast.Name) and n.id not in out and n.id not in (triple or ()):
                    d = defs.get(n.id)
                    if (d is None and n.id in unpacked_locals) or (isinstance(d, (ast.Call, ast.Await)) and _clock_name(d) is None):
                        out.append(n.id)
        return out

    def formula_ob(title, ok, node, detail, *exprs, key=None):
        if not ok and opaque_in(*exprs):
            not_located("O4.1", f"{title}: {opaque_in(*exprs)} in `{'` / `'.join(u(e) for e in exprs if e is not None)[:200]}` hold(s) the result of a call that cannot be read as a formula", node)
        else:
            chk.ob("O4.1", title, ok, node, detail)

    # ---- O4.1 formulas ---------------------------------------------------------------------------------------------------------------
    chk.rule("O4.1", "service_time == request_end - request_start (same request context); processing_time == processing_end - processing_start; "
             "latency == request_end - (schedule start + scheduled) if throttled else service_time; throttled == scheduled > 0", 5,
             "every request of a throttled (latency) / any (service, processing) task reports a different span than documented")
    if ctxvar is None:
        not_located("O4.1", "the request context is not bound to a local (`with ... as ctx`)", Rq)
    st = arg_named("service_time")
    if st is None or ctxvar is None:
        not_located("O4.1", "the value handed to the sampler as service_time")
    else:
        e = formula_of(st)
        formula_ob("service_time = ctx.request_end - ctx.request_start", rat_equal(e, parse_expr(f"{ctxvar}.request_end - {ctxvar}.request_start")), st, f"service_time = {u(e)}", e)
    pt = arg_named("processing_time")
    pend = pstart = None
    pt_wrong = False
    if pt is None:
        not_located("O4.1", "the value handed to the sampler as processing_time")
    else:
        e = inline_node(pt, defs)  # clock reads stay opaque names (no_calls), pure temporaries are folded

        def clock_local(x):
            return isinstance(x, ast.Name) and x.id in defs and _is_clock(defs[x.id])

        def opaque_local(x):  # a local that is not bound once, or is bound to the result of some other call: it may well hold a reading of the monotonic clock (a wrapper)
            return isinstance(x, ast.Name) and (x.id not in defs or (isinstance(defs[x.id], (ast.Call, ast.Await)) and _clock_name(defs[x.id]) is None))

        ok = isinstance(e, ast.BinOp) and isinstance(e.op, ast.Sub) and clock_local(e.left) and clock_local(e.right)
        pend, pstart = (e.left.id, e.right.id) if ok else (None, None)
        pt_wrong = not ok
        if not ok and isinstance(e, ast.BinOp) and isinstance(e.op, ast.Sub) and all(clock_local(x) or opaque_local(x) for x in (e.left, e.right)):
            pt_wrong = False
            not_located("O4.1", f"the clock behind the processing interval `{u(e)}` (its ends are results of calls that are not the monotonic clock function itself)", pt)
        elif not ok and opaque_in(e):
            pt_wrong = False
            not_located("O4.1", f"the processing interval `{u(e)}`: {opaque_in(e)} hold(s) the result of a call that cannot be read as a formula", pt)
        else:
            chk.ob("O4.1", "processing_time = processing_end - processing_start (both perf_counter)", ok, pt, f"processing_time = {u(e)}")
    lat = arg_named("latency")
    thr_expr = lat_body = None
    zdetail = ""

    def throttle_test(e):
        """True / False / None (cannot be told): the test - already inlined - holds exactly for the scheduled times > 0. Decided on values, conjunct by conjunct; a conjunct
        that depends on something else than the scheduled time can switch a throttled request to the unthrottled formula: located and wrong."""
        undecided = False
        for v in (0, 1e-09, 7.0):
            vals = [_truth(f, {sched: v}) for f in conjuncts(e)]
            if any(x is False for x in vals):
                got = False
            elif all(x is True for x in vals):
                got = True
            elif any(x is True for x in vals):
                return False  # what can be evaluated holds, a condition foreign to the schedule decides
            else:
                undecided = True
                continue
            if got != (v > 0):
                return False
        return None if undecided else True

    if lat is None:
        not_located("O4.1", "the value handed to the sampler as latency")
    else:
        le = _root(lat, defs)
        if not isinstance(le, ast.IfExp) and expand(lat) is not None:
            le = expand(lat)  # computed by a helper: its expression, over the names of the loop
        if isinstance(le, ast.IfExp):
            thr_expr = inline_node(le.test, defs)
            ok_t = throttle_test(thr_expr)
            # request_end - (Z + scheduled) for SOME loop-invariant Z that is a reading of the monotonic clock taken while the client started up (the schedule's zero point, by
            # role: whatever the formula adds to the scheduled time; before the ramp-up repair that was the task start, now it is a reading taken after the ramp-up wait - O4.7)
            lat_body = le.body
            ok_b, zdetail = schedule_zero_is_clock_reading(call, L, g, defs, lat_body, ctxvar, sched)
            detail = f"latency = {u(inline_node(le.body, defs))} if {u(thr_expr)} else {u(inline_node(le.orelse, defs))}" + (f" [{zdetail}]" if zdetail else "")
            if ok_t is None:
                not_located("O4.1", f"the throttle condition `{u(thr_expr)}` of the latency cannot be evaluated on the scheduled time", lat)
            else:
                formula_ob("throttled == (scheduled time > 0)", ok_t, lat, detail, thr_expr)
            if ctxvar is not None:
                formula_ob("throttled latency = request_end - (schedule start + scheduled time)", ok_b, lat, detail, inline_node(le.body, defs))
            if st is not None:
                ok_e = u(inline_node(le.orelse, defs)) == u(formula_of(st)) or rat_equal(inline_node(le.orelse, defs), formula_of(st))
                formula_ob("unthrottled latency = service_time", ok_e, lat, detail, inline_node(le.orelse, defs), formula_of(st))
        elif any(isinstance(n, (ast.Call, ast.Await)) for n in ast.walk(le)) or isinstance(le, ast.Name):
            not_located("O4.1", f"the latency `{u(le)}` is not a formula of this function", lat)
        else:
            # a plain formula: the same span whether or not the task is throttled
            detail = f"latency is not a conditional expression: {u(le)}"
            chk.ob("O4.1", "throttled == (scheduled time > 0)", False, lat, detail)
            chk.ob("O4.1", "throttled latency = request_end - (schedule start + scheduled time)", False, lat, detail)
    rs = arg_named("request_start")
    if rs is None or ctxvar is None:
        not_located("O4.1", "the value handed to the sampler as request_start")
    else:
        formula_ob("sample's request_start is the context's request_start", u(formula_of(rs)) == f"{ctxvar}.request_start", rs, f"request_start = {u(formula_of(rs))}", formula_of(rs))
    tp = arg_named("time_period")
    if tp is None or ctxvar is None:
        not_located("O4.1", "the value handed to the sampler as time_period")
    else:
        formula_ob("time_period = request_end - task start", rat_equal(formula_of(tp), parse_expr(f"{ctxvar}.request_end - {total_start}")), tp, f"time_period = {u(formula_of(tp))}", formula_of(tp))

    # the request context's start/end are the earliest send / latest response of all wire requests (shared with C18/O18.1)
    from rules.C18 import merge_kind

    chh = ctx.cls("RequestContextHolder")
    for upd, key_, want_ in (("update_request_start", "request_start", "min"), ("update_request_end", "request_end", "max")):
        f_ = ctx.methods(chh).get(upd)
        if f_ is None:
            raise AnchorMissing(f"RequestContextHolder.{upd}")
        kind_, none_safe_, st_ = merge_kind(f_, key_)
        chk.ob("O4.1", f"context {key_} is the {'earliest send' if want_ == 'min' else 'latest response'} of all wire requests ({want_} merge)", kind_ == want_, st_ if st_ is not None else f_,
               f"operator: {kind_}" + ("" if kind_ == want_ else " — an operation issuing several requests (scroll pages, retries, composite) reports only part of its span as service time"),
               key=f"{_C}:{upd}:merge:{key_}")

    # ---- O4.2 containment by program order --------------------------------------------------------------------------------------------------
    chk.rule("O4.2", "processing_start is taken before entering the request context, processing_end after leaving it, the runner is invoked inside it; "
             "all four timestamps come from the same monotonic clock; the issue time stamp is taken after the throttle wait", 5,
             "processing_time < service_time for some request, or samples stamped with the time the wait began")
    wn = g.node_of(Rq)
    ok = all(Wn in list(source.ancestors(top)) for _, top, _ in run_sites)  # (top: the invocation itself, or the await - in the function of the `with` - of the helper it is written in)
    chk.ob("O4.2", "runner invoked inside the request context", ok, runs[0], "")
    # the waits of an iteration: sleeps written in the loop or in a helper awaited from it; awaits that cannot be followed are kept apart (never a verdict)
    sites, opaque = wait_sites(L, root_sc, drv)

    def in_request(n):
        return any(a is Rq for a in source.ancestors(n))

    def before_request(n):
        return not in_request(n) and g.path_exists(g.node_of(n), wn, avoid=[Lh])

    # a helper that performs the request and ALSO sleeps before it enters the request context: the wait cannot be placed relative to the clock reads of the loop
    inner_waits, gh = [], None
    if req.in_helper:
        gh = cfg_of(req.scope.func)

        def in_req_helper(n, sc_):  # the node of the request helper through which the sleep n (written in scope sc_) is reached
            while sc_.func is not req.scope.func and sc_.outer is not None:
                n, sc_ = sc_.call, sc_.outer
            return n if sc_.func is req.scope.func and sc_.outer is not None else None

        for s_, sc_, t in sites:
            n_ = in_req_helper(s_, sc_) if in_request(t) else None
            if n_ is not None and not any(a is Wn for a in source.ancestors(n_)) and gh.path_exists(gh.node_of(n_), gh.node_of(Wn)):
                inner_waits.append(s_)
    wait_tops = list({id(t): t for _, _, t in sites if not in_request(t)}.values())
    opaque_before = list({id(t): t for _, t in opaque if before_request(t)}.values())

    def assigns_in_loop(name):
        return [n for n in ast.walk(L) if isinstance(n, ast.Assign) and len(n.targets) == 1 and any(isinstance(x, ast.Name) and x.id == name for x in (
            [n.targets[0]] if isinstance(n.targets[0], ast.Name) else n.targets[0].elts if isinstance(n.targets[0], ast.Tuple) else []))]

    def between(a_node, waits):
        """the waits that can run after a_node and before the request of the same iteration"""
        return [w for w in waits if g.path_exists(a_node, g.node_of(w), avoid=[Lh]) and g.path_exists(g.node_of(w), wn, avoid=[Lh]) and g.node_of(w) is not a_node]

    def place_of(name):
        """(graph, statement that reads the clock into the local, its node, node at which the request context is entered in that graph, the statement that stands for the request
        context there, nodes to avoid = the loop head) - in the loop, or in the helper that performs the request when the time stamp was moved there along with it"""
        if name in req.clocks:
            a = req.clocks[name]
            return gh, a, gh.node_of(a), gh.node_of(Wn), Wn, []
        a = assigns_in_loop(name)
        return (g, a[0], g.node_of(a[0]), wn, Rq, [Lh]) if a else None

    def helper_awaits_between(a_node):
        """awaits of the request helper that can run after a_node and before its request context is entered: (sleeps, awaits of anything else)"""
        aws = [n for n in walk_body(req.scope.func) if isinstance(n, ast.Await) and not any(a is Wn for a in source.ancestors(n)) and gh.node_of(n) is not a_node
               and gh.path_exists(a_node, gh.node_of(n)) and gh.path_exists(gh.node_of(n), gh.node_of(Wn))]
        return [n for n in aws if _is_sleep(n)], [n for n in aws if not _is_sleep(n)]

    if pt is not None and pstart is not None and pend is not None:
        ps_, pe_ = place_of(pstart), place_of(pend)
        if ps_ is None or pe_ is None:
            not_located("O4.2", "the clock reads of the processing interval are not taken in the request loop")
        else:
            G_, a_, n_, entry_, cs_, av_ = ps_
            psn = n_
            ok = cs_ not in list(source.ancestors(a_)) and G_.dominated_by_nodes(entry_, [n_]) and not G_.path_exists(entry_, n_, avoid=av_)
            chk.ob("O4.2", "processing_start before the context", ok, a_, "")
            G_, a_, n_, entry_, cs_, av_ = pe_
            ok = cs_ not in list(source.ancestors(a_)) and G_.dominated_by_nodes(n_, [entry_]) and not G_.path_exists(n_, entry_, avoid=av_)
            chk.ob("O4.2", "processing_end after the context", ok, a_, "")
            # no wait between processing_start and the context entry
            if pstart in req.clocks:
                late, unfollowed = helper_awaits_between(psn)
                chk.ob("O4.2", "no wait between processing_start and the request", not late, ps_[1], "" if not late else f"`{short(late[0], 60)}` runs after the processing interval has started")
                if not late and unfollowed:
                    not_located("O4.2", f"`{short(unfollowed[0], 60)}` between processing_start and the request cannot be followed (it may wait)", ps_[1])
            else:
                late = between(psn, wait_tops)
                if not late and inner_waits:
                    not_located("O4.2", f"`{short(inner_waits[0], 60)}`: the helper that performs the request also waits before it enters the request context", ps_[1])
                else:
                    chk.ob("O4.2", "no wait between processing_start and the request", not late, ps_[1], "" if not late else f"`{short(late[0], 60)}` runs after the processing interval has started")
                if not late and between(psn, opaque_before):
                    not_located("O4.2", f"`{short(between(psn, opaque_before)[0], 60)}` between processing_start and the request cannot be followed (it may wait)", ps_[1])
    elif pt is not None and not pt_wrong:
        not_located("O4.2", "processing_start / processing_end")
    ch = ctx.cls("RequestContextHolder")
    cm = ctx.methods(ch)

    def clocks_read(f, depth=2):
        """dotted names of the time.* functions called by f or by a method of its class / function of its module that it calls"""
        out = {dotted(n.func) for n in walk_body(f) if isinstance(n, ast.Call) and (dotted(n.func) or "").startswith("time.")}
        if depth:
            for n in walk_body(f):
                callee = resolve_callee(n, ctx) if isinstance(n, ast.Call) else None
                if callee is not None and callee is not f:
                    out |= clocks_read(callee, depth - 1)
        return out

    for nm in ("on_request_start", "on_request_end"):
        f = cm.get(nm)
        if f is None:
            raise AnchorMissing(f"RequestContextHolder.{nm}")
        clocks = clocks_read(f)
        if not clocks:
            not_located("O4.2", f"the clock read by RequestContextHolder.{nm}", f)
            continue
        chk.ob("O4.2", f"{nm} uses the same monotonic clock (perf_counter)", clocks == {"time.perf_counter"}, f, f"reads {sorted(clocks)}")
    trace_hook_table(chk, "O4.2", repo)
    from rules.C18 import propagation_guard_rule

    propagation_guard_rule(chk, "O4.2", ctx)
    at = arg_named("absolute_time")
    at_root = _root(at, defs) if at is not None else None
    if at is None:
        not_located("O4.2", "the value handed to the sampler as absolute_time")
    elif isinstance(at, ast.Name) and at.id in req.clocks:
        # the stamp is taken by the helper that performs the request: after every wait of the loop; in the helper it must precede the request context with no wait in between
        G_, an_, n_, entry_, cs_, _ = place_of(at.id)
        late, unfollowed = helper_awaits_between(n_)
        ok = _clock_name(at_root) == "time.time" and cs_ not in list(source.ancestors(an_)) and G_.dominated_by_nodes(entry_, [n_]) and not G_.path_exists(entry_, n_) and not late
        chk.ob("O4.2", "issue time stamp (wall clock) taken after the throttle wait and before the request", ok, an_, "" if ok else "the stamp is taken before a wait (or not on every path before the request, or not from the wall clock)")
        if ok and unfollowed:
            not_located("O4.2", f"`{short(unfollowed[0], 60)}` between the issue time stamp and the request cannot be followed (it may wait)", an_)
    elif isinstance(at, ast.Name) and at.id in defs and _clock_name(at_root) is not None and assigns_in_loop(at.id):
        an_ = assigns_in_loop(at.id)[0]
        late = [w for w in wait_tops if g.path_exists(g.node_of(an_), g.node_of(w), avoid=[Lh])]
        ok = _clock_name(at_root) == "time.time" and g.dominated_by_nodes(wn, [g.node_of(an_)]) and not late
        chk.ob("O4.2", "issue time stamp (wall clock) taken after the throttle wait and before the request", ok, an_, "" if ok else "the stamp is taken before a wait (or not on every path, or not from the wall clock)")
        if ok and inner_waits:
            not_located("O4.2", f"`{short(inner_waits[0], 60)}`: the helper that performs the request also waits before it enters the request context (after the issue time stamp)", an_)
        if ok and between(g.node_of(an_), opaque_before):
            not_located("O4.2", f"`{short(between(g.node_of(an_), opaque_before)[0], 60)}` between the issue time stamp and the request cannot be followed (it may wait)", an_)
    elif _clock_name(at) in ("time.time", "time.perf_counter"):
        chk.ob("O4.2", "issue time stamp", False, at, "the stamp is read when the sample is recorded, after the request")
    else:
        not_located("O4.2", f"the issue time stamp `{u(at)}` is not a local that holds one reading of a clock", at)

    # ---- O4.3 no early issue ------------------------------------------------------------------------------------------------------------------------
    chk.rule("O4.3", "when throttled, the sleep-until (wait T - now() iff the task is throttled and the client ahead of time, in the loop or in a helper awaited from it) on the "
             "same T the latency formula subtracts precedes the request on every path", 2,
             "a client ahead of schedule issues its request early: target throughput exceeded and latency negative/understated")
    lat_inl = inline_node(lat_body, defs) if lat_body is not None else None
    verdicts = []
    for s, sc, top in sites:
        if not before_request(top):
            continue
        kind, detail = wait_verdict(s, sc, L, sched, lat_inl, ctxvar, opaque_in)
        if kind == "ok" and inner_waits:
            kind, detail = "unknown", detail + f"; the helper that performs the request waits as well (`{short(inner_waits[0], 50)}`) before it enters the request context"
        if kind == "ok":
            # the decision to wait is on every path to the request
            stmt = source.enclosing_stmt(top)
            while stmt is not None and source.logical_parent(stmt) is not L:
                stmt = source.enclosing_stmt(source.parent(stmt)) if source.parent(stmt) is not None else None
            if stmt is None or not g.dominated_by_nodes(wn, [g.node_of(stmt)]):
                kind, detail = "bad", detail + ": the wait is not on every path to the request"
        verdicts.append((kind, detail, top))
        if kind == "ok":
            break
    good = [v for v in verdicts if v[0] == "ok"]
    unk = [v for v in verdicts if v[0] == "unknown"]
    if good:
        chk.ob("O4.3", "sleep-until on the scheduled time precedes the request", True, good[0][2], good[0][1])
    elif unk:
        not_located("O4.3", f"sleep-until of the throttled schedule: {unk[0][1]}", unk[0][2])
    elif verdicts:
        chk.ob("O4.3", "sleep-until on the scheduled time precedes the request", False, verdicts[0][2], verdicts[0][1])
    elif opaque_before or inner_waits:
        x_ = (opaque_before or inner_waits)[0]
        not_located("O4.3", f"sleep-until of the throttled schedule: no sleep before the request in the loop, `{short(x_, 60)}` " +
                    ("cannot be followed" if opaque_before else "is written in the helper that performs the request"), x_)
    else:
        chk.ob("O4.3", "sleep-until on the scheduled time precedes the request", False, L, "no wait before the request: neither the loop nor anything awaited from it before the request sleeps")

    def is_cancel_test(e, depth=1):
        """an event of the executor is consulted (`self.<attr>.is_set()`): written out, through a bound method hoisted out of the loop, or in a predicate method of the executor.
        Which event it is follows from where it is tested (see cancel_ifs), not from the attribute's name."""
        def event_read(x):
            return any(isinstance(n, ast.Call) and isinstance(n.func, ast.Attribute) and n.func.attr == "is_set" and is_self_attr(n.func.value) for n in ast.walk(x))

        if event_read(inline_node(e, defs)):
            return True
        for c in (n for n in ast.walk(e) if isinstance(n, ast.Call)) if depth else ():
            f = resolve_callee(c, drv, defs)
            if f is not None and any(event_read(r.value) for r in walk_body(f) if isinstance(r, ast.Return) and r.value is not None):
                return True
        return False

    # the cancellation test that leaves the loop is passed on every path from the start of an iteration to a wait and to the request (statements that do not wait - a
    # counter, a log line - may precede it)
    # the cancellation test by role: an event of the executor tested BEFORE the request of the iteration, leaving the loop (the completion event is consulted after the request)
    cancel_ifs = [n for n in ast.walk(L) if isinstance(n, ast.If) and source.enclosing(n, (ast.For, ast.While, ast.AsyncFor)) is L and is_cancel_test(n.test)
                  and any(isinstance(x, ast.Break) for x in source.walk_explicit(n)) and before_request(n)]
    if not cancel_ifs:
        not_located("O4.3", "the cancellation test of the request loop (a test of the executor's cancel event that breaks out of the loop)", L)
    else:
        cn = [g.node_of(n) for n in cancel_ifs]
        starts = [g.nodes[y] for y, lab in g.succ[Lh.id] if lab == "iter" and not any(g.nodes[y] is c for c in cn)]
        reach = g.reachable(starts, avoid=cn + [Lh]) if starts else set()
        early = [w for w in wait_tops + opaque_before + [Rq] if g.node_of(w).id in reach or any(g.node_of(w) is s_ for s_ in starts)]
        chk.ob("O4.3", "cancellation test precedes waiting", not early, cancel_ifs[0], "" if not early else f"`{short(early[0], 60)}` can run before the cancellation test of the iteration")

    # ---- O4.4 one sample per request -----------------------------------------------------------------------------------------------------------------
    chk.rule("O4.4", "on every normal path from the runner invocation to the next iteration or loop exit exactly one sampler.add call is passed", 3,
             "requests without a sample (lost) or with two samples (double counted)")
    # several sites are one sample per request as long as no path of an iteration passes two of them (the arms of an if / else); then the field flow would have to be
    # decided per site: not recognised. Two sites on one path count the request twice: located and wrong.
    ans = [g.node_of(c) for c in adds]
    twice = [(a, b) for i, a in enumerate(ans) for j, b in enumerate(ans) if i != j and g.path_exists(a, b, avoid=[Lh], edge_ok=g.normal_edge)]
    exclusive_sites = len(adds) > 1 and not twice
    if exclusive_sites:
        not_located("O4.4", f"{len(adds)} mutually exclusive calls hand the sample of a request to the sampler (the field flow is only decided for the first one)", adds[1])
    else:
        chk.ob("O4.4", "single sampler.add site in the loop", len(adds) == 1, addc, f"{len(adds)} site(s)" + ("" if len(adds) == 1 else ", two of them on one path of an iteration"))

    def plain_nesting(stmt):
        """the statement is a statement of the loop body, possibly inside `with` blocks / the body or the finally clause of a `try` (which do not make it conditional on
        normal paths); inside an except handler, an else clause or any other compound statement it is not"""
        c, p_ = stmt, source.logical_parent(stmt)
        while p_ is not None and p_ is not L:
            if not (isinstance(p_, (ast.With, ast.AsyncWith)) or (isinstance(p_, ast.Try) and any(c is x for x in list(p_.body) + list(p_.finalbody)))):
                return False
            c, p_ = p_, source.logical_parent(p_)
        return p_ is L

    ok = plain_nesting(source.enclosing_stmt(addc)) and not guards(addc, stop=L) and source.enclosing(addc, (ast.For, ast.While, ast.AsyncFor)) is L and add_always
    if not exclusive_sites:  # (whether SOME site is passed on every path is decided on the control-flow graph below)
        chk.ob("O4.4", "sampler.add unconditional at loop-body level", ok, addc, f"guards={[(u(t), p) for t, p in guards(addc, stop=L)]}" + ("" if add_always else "; conditional inside the helper that records the sample"))
    elif not all(al for _, _, al in handovers):
        chk.ob("O4.4", "sampler.add unconditional at loop-body level", False, addc, "conditional inside the helper that records the sample")
    an = g.node_of(addc)
    wx = [wn] if req.in_helper else [n for n in g.by_ast.get(id(Wn), []) if n.kind == "with_exit"]  # where the request of the iteration is finished
    if not wx:
        raise AnchorMissing("exit of the request context in the control-flow graph of the request loop")
    # (the rest of the iteration hangs in the synthetic else of the cancellation guard clause: only the breaks of the test's own arm belong to it)
    cancel_breaks = {id(x) for c_ in cancel_ifs for x in source.walk_explicit(c_) if isinstance(x, ast.Break)}
    breaks = [g.node_of(b) for b in ast.walk(L) if isinstance(b, ast.Break) and id(b) not in cancel_breaks and source.enclosing(b, (ast.For, ast.While, ast.AsyncFor)) is L]
    ok = all(Lh.id not in g.reachable([w], avoid=ans, edge_ok=g.normal_edge) for w in wx)
    chk.ob("O4.4", "no path from the finished request to the next iteration bypasses sampler.add", ok, addc, "")
    # a break leaves a request unsampled only if it lies between the request and sampler.add (a break before the request was issued loses nothing)
    lost = [b for b in breaks if any(g.path_exists(w, b, avoid=ans + [Lh], edge_ok=g.normal_edge) for w in wx)]
    chk.ob("O4.4", "no break between the finished request and its sample", not lost, addc, f"{len(breaks)} break(s) in the loop, {len(lost)} between request and sampler.add")
    chk.ob("O4.4", "sample recorded after the request context closed", all(g.dominated_by_nodes(a_, wx) for a_ in ans), addc, "")

    # ---- O4.5 field flow ----------------------------------------------------------------------------------------------------------------------------------
    chk.rule("O4.5", "positional/keyword flow loop arguments -> Sampler.add parameters -> Sample(...) arguments -> Sample attributes lands every value in the attribute of its meaning", 15,
             "two same-typed values swapped (latency/service_time, absolute_time/request_start, ...): every record carries the wrong number under the right name")
    roles = flow_roles(L, defs, ctxvar, total_start, triple, drv, sched, expand)
    for src_expr, want in EXPECTED_FLOW.items():
        hits = [p for p, a in b1.items() if roles[src_expr](a)]  # parameters of Sampler.add that receive the value with this role
        if not hits:
            not_located("O4.5", f"the value `{src_expr}` among the arguments of the sampler call (no argument carries a value with this role)")
            continue
        if any(attr_of_add_param.get(p) is None for p in hits):
            not_located("O4.5", f"the Sample attribute that stores the parameter {[p for p in hits if attr_of_add_param.get(p) is None]} of Sampler.{samp_add.name}", ctor0)
            continue
        got = sorted({str(attr_of_add_param.get(p)) for p in hits})
        # (a leading underscore of the attribute is not part of its meaning: `_dependent_timing` / `dependent_timing`)
        chk.ob("O4.5", f"{src_expr} -> Sample.{want}", [x.lstrip("_") for x in got] == [want.lstrip("_")], addc, f"lands in Sample.{', '.join(got)}", key=f"{_D}:flow:{src_expr}->{want}")
    ts = b2.get("task_start")
    from rules.C01 import executor_wiring

    executor_wiring(chk, "O4.5", drv)
    from rules.C07 import drain_before_drive_rule

    drain_before_drive_rule(chk, "O4.4", drv)
    # Sample.task_start is the attribute in which the sampler keeps the reading of the monotonic clock it was constructed with (by data flow: constructor parameter -> attribute)
    s_init = drv.methods(drv.cls("Sampler")).get("__init__")
    stamp_attrs = {n.targets[0].attr: n.value.id for n in (walk_body(s_init) if s_init is not None else ()) if isinstance(n, ast.Assign) and len(n.targets) == 1
                   and is_self_attr(n.targets[0]) and isinstance(n.value, ast.Name) and n.value.id in params_of(s_init)}
    made = [c for c in ast.walk(drv.tree) if isinstance(c, ast.Call) and isinstance(c.func, ast.Name) and c.func.id == "Sampler"]  # constructed by the worker, in this module
    clock_params = {p for p in stamp_attrs.values() if made and all(_is_clock(bind_args(c, s_init).get(p)) for c in made)}
    if ts is None or not clock_params:
        not_located("O4.5", "the sampler's start timestamp (attribute set from the clock reading every Sampler(...) is constructed with) / the task_start argument of Sample(...)", ctor0)
    else:
        ts_r = _root(ts, all_defs(samp_add))  # (through a local alias of the attribute)
        if not is_self_attr(ts_r) and isinstance(ts_r, (ast.Call, ast.Await, ast.Name)):
            not_located("O4.5", f"the task_start argument of Sample(...) `{u(ts)}` is not an attribute of the sampler", ctor0)
        else:
            chk.ob("O4.5", "task_start := sampler start timestamp", is_self_attr(ts_r) and stamp_attrs.get(ts_r.attr) in clock_params, ctor0, f"task_start = {u(ts_r)}")

    check_execute_single(chk, drv, "O4.6", runs, results={id(r): (result_names(r, hops), call) for r, _, hops in run_sites})

    pending = None
    try:
        schedule_start_rule(chk, "O4.7", call, L, g, defs, lat_body, ctxvar, sched)
    except AnchorMissing as e:  # a role of O4.7 that cannot be located must not keep O4.8 from being evaluated
        pending = e
    failed_request_end_rule(chk, "O4.8", repo)
    from rules.C05 import _section  # (a role one of these rules cannot locate / evaluate makes THAT rule inconclusive and does not hide the verdicts of the others)

    for rule_fn, rid in ((sample_type_clock_rule, "O4.9"), (failed_request_feedback_rule, "O4.10"), (sampler_capacity_rule, "O4.11"),
                        (single_drain_rule, "O4.12"), (subrequest_sample_rule, "O4.13")):
        _section(chk, rid, rule_fn, chk, rid, repo)
    if pending is not None:
        raise pending


def trace_hook_table(chk, rid, repo):
    """The trace-signal table is owned by rules/C18.py since F39 (there the row of aiohttp's exception signal holds iff a failed wire request's end is recorded unconditionally by
    at least one of the exception trace hook and the node-level perform_request handler - the latter is also O4.8 here). Same signature, same five instances, same keys. The
    former local definition is kept as a fall-back for a tree in which rules/C18.py does not define the table itself."""
    import rules.C18 as _c18

    shared = getattr(_c18, "trace_hook_table", None)
    if shared is not None and getattr(shared, "__module__", "") == "rules.C18":
        return shared(chk, rid, repo)
    return _trace_hook_table_local(chk, rid, repo)


def _trace_hook_table_local(chk, rid, repo):
    from sa.classes import is_logging_stmt

    """The aiohttp trace signals that start / stop the service-time clock (shared with C18): the start callback is registered for request start only; the stop
    callback for every response chunk (so the LAST chunk counts), for request end and for request exception; no request-side signal stops the clock."""
    fac = repo.module("esrally/client/factory.py")
    chk.use(fac)
    f = fac.methods(fac.cls("EsClientFactory")).get("create_async")
    if f is None:
        raise AnchorMissing("EsClientFactory.create_async")
    tc = [n for n in walk_body(f) if isinstance(n, ast.Assign) and isinstance(n.value, ast.Call) and last_attr(n.value.func) == "TraceConfig" and isinstance(n.targets[0], ast.Name)]
    if not tc:
        raise AnchorMissing("aiohttp.TraceConfig() in create_async")
    tv = tc[0].targets[0].id
    role = {}
    for d in walk_body(f):
        if isinstance(d, (ast.AsyncFunctionDef, ast.FunctionDef)):
            called = {last_attr(c.func) for c in ast.walk(d) if isinstance(c, ast.Call)}
            # a callback has a role only if its body is the single unconditional call (docstring / logging aside)
            body_ = [st_ for st_ in d.body if not (isinstance(st_, ast.Expr) and isinstance(st_.value, ast.Constant)) and not is_logging_stmt(st_)]
            plain = len(body_) == 1 and isinstance(body_[0], ast.Expr) and isinstance(body_[0].value, (ast.Call, ast.Await))
            if "on_request_start" in called and "on_request_end" not in called:
                role[d.name] = "start" if plain else "conditional start"
            elif "on_request_end" in called and "on_request_start" not in called:
                role[d.name] = "stop" if plain else "conditional stop"
    table = {}
    for n in walk_body(f):
        if isinstance(n, ast.Call) and last_attr(n.func) == "append" and isinstance(n.func.value, ast.Attribute) and isinstance(n.func.value.value, ast.Name) and n.func.value.value.id == tv and n.args:
            table.setdefault(n.func.value.attr, []).append(role.get(u(n.args[0]), u(n.args[0])))
    want = {"on_request_start": ["start"], "on_response_chunk_received": ["stop"], "on_request_end": ["stop"], "on_request_exception": ["stop"]}
    for sig in sorted(set(want) | set(table)):
        got = table.get(sig, [])
        ok = (got == want[sig]) if sig in want else not any(r.endswith(("start", "stop")) for r in got)
        chk.ob(rid, f"trace signal {sig} -> {want.get(sig, ['(nothing)'])[0]} the service-time clock", ok, tc[0], f"registered: {got or 'nothing'}" + ("" if ok else
               (" — the clock stops before the response body has arrived" if sig not in want and "stop" in got else " — the span no longer ends with the last response chunk / an error")),
               key=f"esrally/client/factory.py:EsClientFactory.create_async:trace:{sig}")
    used = [n for n in walk_body(f) if isinstance(n, ast.keyword) and n.arg == "trace_config" and u(n.value) == tv]
    anyuse = any(isinstance(n, ast.Name) and n.id == tv and isinstance(n.ctx, ast.Load) and not isinstance(source.parent(n), ast.Attribute) for n in walk_body(f))
    chk.ob(rid, "the trace configuration is handed to the client", bool(used) or anyuse, tc[0], "")


def value_sources(fn, name, mod, region=None, depth=2):
    """[(value expression, statement of fn that binds it, function the expression is written in)] for every binding of the local `name` under `region` (default: all of fn).
    An unpacking assignment contributes the element at the local's position: of a tuple display, of the tuple a helper of the module / class returns (followed into the
    helper, `depth` calls deep), or - for anything else - the synthesized subscript `<value>[i]`."""
    out = []
    nodes = [n for r in (region if region is not None else fn.body) for n in source.walk_local(r)]
    for n in nodes:
        if not isinstance(n, ast.Assign):
            continue
        for t in n.targets:
            if isinstance(t, ast.Name) and t.id == name:
                c = n.value.value if isinstance(n.value, ast.Await) else n.value
                callee = resolve_callee(c, mod) if isinstance(c, ast.Call) and depth > 0 else None
                rets = [_root(r.value, local_defs(callee)) for r in walk_body(callee) if isinstance(r, ast.Return) and r.value is not None] if callee is not None and callee is not fn else []
                if rets and not any(isinstance(r, ast.Name) and r.id in params_of(callee) for r in rets):
                    out += [(r, n, callee) for r in rets]  # what a helper of the module / class builds and returns
                else:
                    out.append((n.value, n, fn))
            elif isinstance(t, (ast.Tuple, ast.List)) and any(isinstance(x, ast.Name) and x.id == name for x in t.elts):
                i = [isinstance(x, ast.Name) and x.id == name for x in t.elts].index(True)
                v = n.value
                if isinstance(v, (ast.Tuple, ast.List)) and len(v.elts) == len(t.elts):
                    out.append((v.elts[i], n, fn))
                    continue
                c = v.value if isinstance(v, ast.Await) else v
                callee = resolve_callee(c, mod) if isinstance(c, ast.Call) else None
                followed = False
                if callee is not None and depth > 0 and callee is not fn:
                    hd = local_defs(callee)
                    rets = [_root(r.value, hd) for r in walk_body(callee) if isinstance(r, ast.Return) and r.value is not None]
                    if rets and all(isinstance(r, ast.Tuple) and len(r.elts) == len(t.elts) for r in rets):
                        followed = True
                        for r in rets:
                            e = r.elts[i]
                            inner = value_sources(callee, e.id, mod, depth=depth - 1) if isinstance(e, ast.Name) and e.id not in params_of(callee) else []
                            out += [(x, n, f_) for x, _, f_ in inner] if inner else [(e, n, callee)]
                if not followed:
                    out.append((ast.Subscript(value=v, slice=ast.Constant(value=i), ctx=ast.Load()), n, fn))
    return out


def check_execute_single(chk, drv, RID, runs=(), results=None):
    """Uniform error result and abort policy of execute_single (shared by C04/O4.6 and C09/O9.5b).
    The three result variables are located by role, not by name: they are the names at positions 0/1/2 of the function's single result tuple, and that tuple is tied to its meaning
    through the stable dict keys of the runner protocol (position 0 receives return_value.pop('weight', ..), position 1 .pop('unit', ..), position 2 is the dict carrying 'success').
    Bindings are followed through unpacking assignments into helpers of the module (value_sources); the error flag of the abort condition is located by its role in that
    condition and decided on the library's exception classes; a role that cannot be located is reported as not recognised, never as a violation."""
    from sa.sym import UnknownAtom, bool_eval

    # ---- O4.6 uniform error result ------------------------------------------------------------------------------------------------------------------
    chk.rule(RID, "execute_single: every absorbing handler yields success False and zero ops; the final raise is controlled by not success and (on_error == 'abort' or fatal); "
             "fatal only for the exact ConnectionError type", 5,
             "on-error=continue aborts (or abort continues), or failed requests are counted as operations")
    es = drv.func("execute_single")
    ge = cfg_of(es)
    trys = [n for n in walk_body(es) if isinstance(n, ast.Try)]
    if not trys:
        raise AnchorMissing("try in execute_single")

    def not_located(what, node=None):
        chk.unknown(RID, f"{what}: not recognised in this shape of execute_single", node if node is not None else es)

    # the function's own result: the last statement as written (a guard clause before it makes the normaliser hang it into a synthetic else, source.flat lists it again)
    rets = [n for n in source.flat(es.body) if isinstance(n, ast.Return)]
    rv = _root(rets[0].value, local_defs(es)) if len(rets) == 1 and rets[0].value is not None else None  # the tuple itself or a single-assignment temporary holding it
    triple = [x.id for x in rv.elts] if isinstance(rv, ast.Tuple) and len(rv.elts) == 3 and all(isinstance(x, ast.Name) for x in rv.elts) else None
    if triple is None or len(set(triple)) != 3:
        not_located("the single result tuple (operations, unit, meta data) returned at the end of the function", rets[0] if rets else es)
        return
    ops_v, unit_v, meta_v = triple

    def unguarded(stmt, expr, fn, stop):
        """the binding is unconditional: the statement of execute_single within `stop`, and - for a value found in a helper - the value's statement within the helper"""
        if guards(stmt, stop=stop):
            return False
        return fn is es or not guards(source.enclosing_stmt(expr)) if getattr(expr, "_parent", None) is not None else True

    for h in trys[0].handlers:
        hn = [x for x in ge.by_ast.get(id(h), [])]
        absorbing = any(ge.exit.id in ge.reachable([x]) for x in hn)
        tname = u(h.type) if h.type is not None else "<bare>"
        if not absorbing:
            chk.ob(RID, f"handler {tname} raises on every path", True, h, "")
            continue
        # what the handler reports: its own bindings; a member it does not bind keeps the default bound unconditionally before the request's try
        before_try = [s_ for s_ in source.flat(es.body)[:([i for i, s_ in enumerate(source.flat(es.body)) if s_ is trys[0]] or [0])[0]]]
        md = value_sources(es, meta_v, drv, region=h.body) or [x for x in value_sources(es, meta_v, drv, region=before_try) if not guards(x[1])]
        dicts = [x for x in md if isinstance(x[0], ast.Dict)]
        if not dicts:
            not_located(f"handler {tname}: the meta data dict it reports", h)
        else:
            d, stmt, fn = dicts[0]
            ok = any(source.is_const(k, "success") and source.is_const(v, False) for k, v in zip(d.keys, d.values)) and unguarded(stmt, d, fn, h)
            chk.ob(RID, f"handler {tname}: success False", ok, h, f"reports {short(d, 80)}")
        ops = value_sources(es, ops_v, drv, region=h.body) or [x for x in value_sources(es, ops_v, drv, region=before_try) if not guards(x[1])][-1:]
        if not ops:
            not_located(f"handler {tname}: the number of operations it reports", h)
        else:
            v, stmt, fn = ops[0]
            chk.ob(RID, f"handler {tname}: zero ops", source.is_const(v, 0) and unguarded(stmt, v, fn, h), h, f"reports {short(v, 60)} operation(s)")
    # error flags, by role: locals bound inside a handler of the request's try that the condition of the final raise consults (next to the success member and on_error)
    handler_locals = {t.id for h in trys[0].handlers for n in ast.walk(h) if isinstance(n, ast.Assign) for t in n.targets if isinstance(t, ast.Name)}
    fin = [n for n in walk_body(es) if isinstance(n, ast.Raise) and not any(isinstance(a, (ast.ExceptHandler, ast.Try)) for a in source.ancestors(n) if a is not es)]
    flags, cannot = set(), None
    if fin:
        import itertools

        gs = guards(fin[0])
        in_tests = {n.id for t, _ in gs for n in ast.walk(t) if isinstance(n, ast.Name) and isinstance(n.ctx, ast.Load)}
        flags = {x for x in in_tests if x in handler_locals and x not in triple}
        on_err = [p_ for p_ in params_of(es) if p_ in in_tests]  # the error behaviour the caller asks for: the parameter(s) the condition consults
        # decided on values: the extracted tests are evaluated for a successful result, a failed one and a failed one that names its error type, for on_error in
        # {continue, abort} and for every setting of the error flag(s); the raise must be reached iff the request failed and (abort is requested or the error is fatal)
        metas = ({"success": True}, {"success": False}, {"success": False, "error-type": "transport", "error-description": "connection refused"})
        ok, detail = True, f"raise under {[(u(t), p) for t, p in gs]}"
        for meta_, abort_, fl_ in itertools.product(metas, (False, True), itertools.product((False, True), repeat=len(flags))):
            env = {meta_v: dict(meta_), **{p_: "abort" if abort_ else "continue" for p_ in on_err}, **dict(zip(sorted(flags), fl_))}
            try:
                val = all(bool(ev(t, env)) == pol for t, pol in gs)
            except (CannotEval, TypeError, ValueError, KeyError, AttributeError) as e:
                cannot = str(e)
                break
            want = (not meta_["success"]) and (abort_ or any(fl_))
            if val != want:
                ok = False
                detail += f": with result {meta_}, on_error={'abort' if abort_ else 'continue'}, error flag(s) {dict(zip(sorted(flags), fl_))} the request {'aborts' if val else 'does not abort'} the task"
                break
        if cannot is not None:
            not_located(f"the condition of the final raise cannot be evaluated on (result, on_error, error flag): {cannot}", fin[0])
        else:
            chk.ob(RID, "abort condition == not success and (abort or fatal)", ok, fin[0], detail)
    else:
        # nothing raises after the request's try: either the policy is gone, or it was moved into a helper that raises
        tail = [c for s_ in source.flat(es.body) if not isinstance(s_, ast.Try) for c in source.walk_local(s_) if isinstance(c, ast.Call)]
        helpers = [f_ for f_ in (resolve_callee(c, drv) for c in tail) if f_ is not None and any(isinstance(n, ast.Raise) for n in walk_body(f_))]
        if helpers:
            not_located(f"the final raise of the abort policy (a helper that raises, {helpers[0].name}, is called)")
        else:
            chk.ob(RID, "abort condition == not success and (abort or fatal)", False, es, "no final raise: nothing raises after the request's try, directly or in a helper")
    # the error flag is raised for the exact ConnectionError type only (connection refused: a node died), decided on the library's exception classes: for every class E the
    # handler can receive, (guards of a binding of the flag) and (bound value) may hold only if E is ConnectionError itself - and do hold for it
    fsets = [n for h in trys[0].handlers for n in ast.walk(h) if isinstance(n, ast.Assign) and len(n.targets) == 1 and isinstance(n.targets[0], ast.Name) and n.targets[0].id in flags
             and not source.is_const(n.value, False)]
    if fin and cannot is not None:
        pass  # the condition was not understood (reported above): no statement about the flag it may consult
    elif not flags or not fsets:
        # the abort condition consults no local that a handler of the request binds. It may still learn about the refused connection in another way - a member of the meta
        # data other than `success`, an attribute, a call: then the flag is not recognised; a condition over the success member and on_error alone knows no fatal error
        other = []
        for t, _ in (guards(fin[0]) if fin else ()):
            for n in ast.walk(t):
                if isinstance(n, ast.Constant) and isinstance(n.value, str) and n.value != "success" and isinstance(source.parent(n), (ast.Subscript, ast.Call)) \
                        and any(isinstance(x, ast.Name) and x.id == meta_v for x in ast.walk(source.parent(n))):
                    other.append(f"the member {n.value!r} of the meta data")
                elif isinstance(n, ast.Name) and isinstance(n.ctx, ast.Load) and n.id not in (meta_v, *params_of(es)) and n.id in _stored_names(es):
                    other.append(f"the local `{n.id}`")
                elif isinstance(n, ast.Call) and resolve_callee(n, drv) is not None:
                    other.append(f"the helper `{short(n, 40)}`")
        if fin and other:
            not_located(f"the error flag of the abort condition: it consults {other[0]}, which no handler of the request binds as a local", fin[0])
        elif fin:
            chk.ob(RID, "fatal only for the exact ConnectionError type", False, fin[0], "the abort condition consults no flag that a handler of the request raises: a refused connection is not fatal")
    else:
        from sa.exc import Hierarchy, handler_type_names

        hier = getattr(chk.repo, "_c04_hier", None)
        if hier is None:
            hier = chk.repo._c04_hier = Hierarchy()
        target = "elasticsearch.ConnectionError"

        def exc_atom(n, cls_, evar):
            for p_, neg in (("type(V_e) is E_c", False), ("type(V_e) == E_c", False), ("V_e.__class__ is E_c", False), ("V_e.__class__ == E_c", False),
                            ("type(V_e) is not E_c", True), ("type(V_e) != E_c", True), ("V_e.__class__ is not E_c", True), ("V_e.__class__ != E_c", True)):
                b_ = pat.match(n, p_, binds={"e": evar})
                if b_ is not None and hier.known(b_["c"]):
                    return (hier.resolve_alias(cls_) == hier.resolve_alias(b_["c"])) != neg
            if isinstance(n, ast.Call) and dotted(n.func) == "isinstance" and len(n.args) == 2 and isinstance(n.args[0], ast.Name) and n.args[0].id == evar:
                cs_ = [dotted(x) for x in (n.args[1].elts if isinstance(n.args[1], ast.Tuple) else [n.args[1]])]
                if all(c is not None and hier.known(c) for c in cs_):
                    return any(hier.is_subclass(cls_, c) for c in cs_)
            if isinstance(n, ast.Constant):
                return bool(n.value)
            return None

        bad, unk, exact_set = [], [], False
        for n in fsets:
            h = source.enclosing(n, ast.ExceptHandler)
            if h is None or not h.name:
                unk.append((n, "the handler does not bind its exception"))
                continue
            caught = handler_type_names(h)
            classes = sorted(c for c in hier.bases if c.split(".")[0] in ("elasticsearch", "elastic_transport") and hier.catches(caught, c))
            if not any(hier.resolve_alias(c) == hier.resolve_alias(target) for c in classes):
                unk.append((n, f"the handler ({', '.join(caught)}) does not receive {target}"))
                continue
            conds = [t if pol else negate(t) for t, pol in guards(n, stop=h, path_sensitive=True)] + [n.value]
            for c in classes:
                try:
                    val = all(bool_eval(t, lambda x, c=c: exc_atom(x, c, h.name)) for t in conds)
                except UnknownAtom as e:
                    unk.append((n, f"`{e}` cannot be decided on the class of the exception"))
                    break
                is_exact = hier.resolve_alias(c) == hier.resolve_alias(target)
                if val and not is_exact:
                    bad.append((n, f"{c} raises the flag, too: `{short(n, 70)}` under {[u(t) for t in conds[:-1]]}"))
                    break
                exact_set = exact_set or (val and is_exact)
        if bad:
            chk.ob(RID, "fatal only for the exact ConnectionError type", False, bad[0][0], bad[0][1])
        elif unk:
            not_located(f"the error flag {sorted(flags)}: {unk[0][1]}", unk[0][0])
        else:
            chk.ob(RID, "fatal only for the exact ConnectionError type", exact_set, fsets[0], "" if exact_set else f"no binding of {sorted(flags)} holds for {target} itself")
    # the single result tuple carries (number of operations, their unit, meta data) in this order: tied to the runner protocol's dict keys
    srcs = [value_sources(es, v, drv) for v in triple]

    def is_pop(e, key_):
        return isinstance(e, ast.Call) and last_attr(e.func) == "pop" and e.args and source.is_const(e.args[0], key_)

    pos = {"weight": {i for i in range(3) if any(is_pop(e, "weight") for e, _, _ in srcs[i])},
           "unit": {i for i in range(3) if any(is_pop(e, "unit") for e, _, _ in srcs[i])},
           "success dict": {i for i in range(3) if any(isinstance(e, ast.Dict) and any(source.is_const(k, "success") for k in e.keys) for e, _, _ in srcs[i])}}
    detail = f"returns ({', '.join(triple)}); " + ", ".join(f"{k} -> position {sorted(v) if v else '?'}" for k, v in pos.items())
    if not all(pos.values()):
        not_located("the bindings that tie the result tuple to the runner protocol (pop('weight'), pop('unit'), the dict with 'success'): " + detail, rets[0])
    else:
        chk.ob(RID, "uniform result triple", pos == {"weight": {0}, "unit": {1}, "success dict": {2}}, rets[0], detail)
    # unpacked in the loop in the same order: position i of the unpacking is the value handed to the sampler as ops / ops_unit / meta_data
    for r in runs:
        asg = source.enclosing_stmt(r)
        # (results: the locals of the function that hands the sample over which hold the triple, followed by position through helpers - see result_names)
        got, fn = results[id(r)] if results is not None and id(r) in results else (unpacked_result(r), source.enclosing_func(r))
        samp_add, _, attr_of_add_param, _ = sample_field_flow(drv)
        defs_ = all_defs(fn) if fn is not None else {}
        adds = sample_handovers(fn, _Scope(fn, defs_), drv, samp_add) if fn is not None else []
        if got is None or len(got) != 3 or not adds:
            not_located("the unpacking of the runner's result into three locals next to the call that hands the sample to the sampler", asg)
            continue
        b = adds[0][1]
        by_attr = {a: p for p, a in attr_of_add_param.items() if p in b}  # Sample attribute -> parameter of Sampler.add (parameter names play no role)
        if not all(a in by_attr for a in ("total_ops", "total_ops_unit", "request_meta_data")):
            not_located("the parameters of the sampler call that land in Sample.total_ops / total_ops_unit / request_meta_data", adds[0][0])
            continue
        sent = [u(inline_node(b[by_attr[a]], defs_)) for a in ("total_ops", "total_ops_unit", "request_meta_data")]
        chk.ob(RID, "result triple unpacked in order", len(set(got)) == 3 and sent == got, asg,
               f"unpacked as ({', '.join(got)}); the sampler receives total_ops={sent[0]}, total_ops_unit={sent[1]}, request_meta_data={sent[2]}")



from sa.selftest import V  # noqa: E402

_F39_METHOD = ("    async def perform_request(self, *args, **kwargs):\n        try:\n            return await super().perform_request(*args, **kwargs)\n        except BaseException:\n            # aiohttp only signals `on_request_exception` until the response *headers* have arrived. A request that fails\n            # later (timeout / disconnect while the body is read) ends now and not when its headers were received.\n            try:\n                RequestContextHolder.on_request_end()\n            except LookupError:\n                pass\n            raise\n\n")

VARIANTS = [
    V("latency from request_start", "break", _D, "                latency = request_end - absolute_expected_schedule_time if throughput_throttled else service_time", "                latency = request_end - request_start if throughput_throttled else service_time", "O4.1"),
    V("service time from processing_end", "break", _D, "                service_time = request_end - request_start", "                service_time = processing_end - request_start", "O4.1"),
    V("throttled >= 0", "break", _D, "                throughput_throttled = expected_scheduled_time > 0", "                throughput_throttled = expected_scheduled_time >= 0", "O4.1"),
    V("seed m1: throttled only when actually waiting", "break", _D,
      "                throughput_throttled = expected_scheduled_time > 0\n                if throughput_throttled:\n                    rest = absolute_expected_schedule_time - time.perf_counter()\n                    if rest > 0:\n                        await asyncio.sleep(rest)",
      "                rest = absolute_expected_schedule_time - time.perf_counter()\n                throughput_throttled = expected_scheduled_time > 0 and rest > 0\n                if throughput_throttled:\n                    await asyncio.sleep(rest)", "O4."),
    V("processing_start inside the context", "break", _D, "                processing_start = time.perf_counter()\n                self.schedule_handle.before_request(processing_start)\n                with self.es[\"default\"].new_request_context() as request_context:",
      "                with self.es[\"default\"].new_request_context() as request_context:\n                    processing_start = time.perf_counter()\n                    self.schedule_handle.before_request(processing_start)", "O4.2"),
    V("seed m2: issue stamp moved above the wait", "break", _D,
      "                throughput_throttled = expected_scheduled_time > 0\n                if throughput_throttled:\n                    rest = absolute_expected_schedule_time - time.perf_counter()\n                    if rest > 0:\n                        await asyncio.sleep(rest)\n\n                absolute_processing_start = time.time()\n",
      "                throughput_throttled = expected_scheduled_time > 0\n                absolute_processing_start = time.time()\n                if throughput_throttled:\n                    rest = absolute_expected_schedule_time - time.perf_counter()\n                    if rest > 0:\n                        await asyncio.sleep(rest)\n\n", "O4.2"),
    V("sleep deleted", "break", _D, "                    if rest > 0:\n                        await asyncio.sleep(rest)\n", "                    pass\n", "O4.3"),
    V("sleep on the relative time", "break", _D, "                    rest = absolute_expected_schedule_time - time.perf_counter()", "                    rest = expected_scheduled_time - time.perf_counter()", "O4.3"),
    V("second sampler.add on error", "break", _D, "                if completed:\n                    self.logger.info(\"Task [%s] is considered completed due to external event.\", self.task)\n                    break",
      "                if not request_meta_data.get('success'):\n                    self.sampler.add(self.task, self.client_id, sample_type, request_meta_data, absolute_processing_start, request_start, latency, service_time, processing_time, throughput, total_ops, total_ops_unit, time_period, progress)\n                if completed:\n                    break", "O4.4"),
    V("skip sample for zero ops", "break", _D, "                self.sampler.add(\n                    self.task,\n                    self.client_id,", "                if total_ops > 0:\n                  self.sampler.add(\n                    self.task,\n                    self.client_id,", "O4.4"),
    V("swap latency/service_time at the call", "break", _D, "                    request_start,\n                    latency,\n                    service_time,\n                    processing_time,\n                    throughput,", "                    request_start,\n                    service_time,\n                    latency,\n                    processing_time,\n                    throughput,", "O4.5"),
    V("swap in Sampler.add -> Sample", "break", _D, "                    latency,\n                    service_time,\n                    processing_time,\n                    throughput,\n                    ops,", "                    latency,\n                    processing_time,\n                    service_time,\n                    throughput,\n                    ops,", "O4.5"),
    V("Sample init swaps absolute_time/request_start", "break", _D, "        self.absolute_time = absolute_time\n        self.request_start = request_start", "        self.absolute_time = request_start\n        self.request_start = absolute_time", "O4.5"),
    V("abort even on continue", "break", _D, "        if on_error == \"abort\" or fatal_error:", "        if on_error != \"continue-on-network\" or fatal_error:", "O4.6"),
    V("fatal for any transport error", "break", _D, "        if type(e) is elasticsearch.ConnectionError:\n            fatal_error = True", "        if isinstance(e, elasticsearch.TransportError):\n            fatal_error = True", "O4.6"),
    V("api error counted as one op", "break", _D, "    except elasticsearch.ApiError as e:\n        total_ops = 0", "    except elasticsearch.ApiError as e:\n        total_ops = 1", "O4.6"),
    V("seed m3: context start merged with max", "break", _C, "min(current, new_request_start)", "max(current, new_request_start)", "O4.1"),
    # preserving
    V("keyword arguments at the call", "keep", _D, "                    request_start,\n                    latency,\n                    service_time,\n                    processing_time,\n                    throughput,\n                    total_ops,\n                    total_ops_unit,\n                    time_period,\n                    progress,\n                    request_meta_data.pop(\"dependent_timing\", None),",
      "                    request_start,\n                    latency,\n                    service_time,\n                    processing_time=processing_time,\n                    throughput=throughput,\n                    ops=total_ops,\n                    ops_unit=total_ops_unit,\n                    time_period=time_period,\n                    percent_completed=progress,\n                    dependent_timing=request_meta_data.pop(\"dependent_timing\", None),"),
    V("inverted conditional latency", "keep", _D, "                latency = request_end - absolute_expected_schedule_time if throughput_throttled else service_time", "                latency = request_end - (schedule_start + expected_scheduled_time) if throughput_throttled else service_time"),
    V("temporaries for the context values", "keep", _D, "                service_time = request_end - request_start", "                duration = request_end - request_start\n                service_time = duration"),
    # F40 (rally 249cfef): the schedule's zero point is taken after the ramp-up wait
    [V("F40 reverted: schedule anchored at the task start taken before the ramp-up wait", "break", _D,
       "        # the client's schedule starts when the client starts, i.e. after any ramp-up wait\n        schedule_start = time.perf_counter() if rampup_wait_time else total_start\n", "", "O4.7"),
     V("", "break", _D, "                absolute_expected_schedule_time = schedule_start + expected_scheduled_time", "                absolute_expected_schedule_time = total_start + expected_scheduled_time")],
    V("F40 equivalent break: schedule start is an alias of the task start", "break", _D, "        schedule_start = time.perf_counter() if rampup_wait_time else total_start\n", "        schedule_start = total_start\n", "O4.7"),
    V("F40 equivalent break: schedule start read after the wait only when there was NO wait", "break", _D, "        schedule_start = time.perf_counter() if rampup_wait_time else total_start\n",
      "        schedule_start = total_start if rampup_wait_time else time.perf_counter()\n", "O4.7"),
    V("F40 half repair: sleep-until on the new zero point, latency still from the task start", "break", _D,
      "                latency = request_end - absolute_expected_schedule_time if throughput_throttled else service_time",
      "                latency = request_end - (total_start + expected_scheduled_time) if throughput_throttled else service_time", "O4."),
    V("schedule zero point is a constant, not a reading of the clock", "break", _D, "        schedule_start = time.perf_counter() if rampup_wait_time else total_start\n", "        schedule_start = 0.0\n", "O4.1"),
    V("F40 respelled: zero point re-read unconditionally after the ramp-up branch", "keep", _D, "        schedule_start = time.perf_counter() if rampup_wait_time else total_start\n", "        schedule_start = time.perf_counter()\n"),
    V("F40 respelled: zero point chosen by an if/else statement with the arms the other way round", "keep", _D, "        schedule_start = time.perf_counter() if rampup_wait_time else total_start\n",
      "        if not rampup_wait_time:\n            schedule_start = total_start\n        else:\n            schedule_start = time.perf_counter()\n"),
    V("F40 respelled: zero point read inside the ramp-up branch right after the sleep", "keep", _D,
      "            await asyncio.sleep(rampup_wait_time)\n        # the client's schedule starts when the client starts, i.e. after any ramp-up wait\n        schedule_start = time.perf_counter() if rampup_wait_time else total_start\n",
      "            await asyncio.sleep(rampup_wait_time)\n            schedule_start = time.perf_counter()\n        else:\n            schedule_start = total_start\n"),
    V("F40 respelled: test on the wait amount spelled as a comparison", "keep", _D, "        schedule_start = time.perf_counter() if rampup_wait_time else total_start\n",
      "        schedule_start = time.perf_counter() if rampup_wait_time > 0 else total_start\n"),
    V("F40 other repair: zero point = task start + the ramp-up delay", "keep", _D, "        schedule_start = time.perf_counter() if rampup_wait_time else total_start\n",
      "        schedule_start = total_start + rampup_wait_time\n"),
    V("F40 respelled: zero point added inside the latency formula, sleep-until on the same sum", "keep", _D,
      "                latency = request_end - absolute_expected_schedule_time if throughput_throttled else service_time",
      "                latency = request_end - expected_scheduled_time - schedule_start if throughput_throttled else service_time"),
    # F39 (rally 09d2ce8): a failed wire request ends when it fails
    V("F39 reverted: the node class does not record the end of a failed request", "break", _A, _F39_METHOD, "", "O4.8"),
    V("F39 break: the end of a failed request is only recorded if none was recorded before (first byte wins again)", "break", _A,
      "            try:\n                RequestContextHolder.on_request_end()\n            except LookupError:\n                pass\n            raise\n",
      "            try:\n                if RequestContextHolder.request_context.get().get(\"request_end\") is None:\n                    RequestContextHolder.on_request_end()\n            except LookupError:\n                pass\n            raise\n", "O4.8"),
    V("F39 break: only client errors of aiohttp end the request, a timeout does not", "break", _A, "        except BaseException:\n            # aiohttp only signals", "        except aiohttp.ClientError:\n            # aiohttp only signals", "O4.8"),
    V("F39 break: the failure is recorded and swallowed", "break", _A, "            except LookupError:\n                pass\n            raise\n", "            except LookupError:\n                pass\n", "O4.8"),
    V("F39 break: the transport is built with the library's node class", "break", _A, "node_class=RallyAiohttpHttpNode", "node_class=AiohttpHttpNode", "O4.8"),
    V("F39 respelled: handler for Exception, result through a temporary, end recorded through update_request_end", "keep", _A,
      "        try:\n            return await super().perform_request(*args, **kwargs)\n        except BaseException:\n            # aiohttp only signals `on_request_exception` until the response *headers* have arrived. A request that fails\n            # later (timeout / disconnect while the body is read) ends now and not when its headers were received.\n            try:\n                RequestContextHolder.on_request_end()\n",
      "        try:\n            response = await super().perform_request(*args, **kwargs)\n            return response\n        except Exception:\n            try:\n                RequestContextHolder.update_request_end(time.perf_counter())\n"),
    V("F39 respelled: missing context suppressed with contextlib, explicit re-raise of the bound exception", "keep", _A,
      "        except BaseException:\n            # aiohttp only signals `on_request_exception` until the response *headers* have arrived. A request that fails\n            # later (timeout / disconnect while the body is read) ends now and not when its headers were received.\n            try:\n                RequestContextHolder.on_request_end()\n            except LookupError:\n                pass\n            raise\n",
      "        except BaseException as failure:\n            import contextlib\n\n            with contextlib.suppress(LookupError):\n                RequestContextHolder.on_request_end()\n            raise failure\n"),
    [V("F39 other repair: the end of a failed request is recorded by the client's perform_request around the transport call", "keep", _A,
       _F39_METHOD, ""),
     V("", "keep", _A,
       "        meta, resp_body = await self.transport.perform_request(\n            method,\n            target,\n            headers=request_headers,\n            body=body,\n            request_timeout=self._request_timeout,\n            max_retries=self._max_retries,\n            retry_on_status=self._retry_on_status,\n            retry_on_timeout=self._retry_on_timeout,\n            client_meta=self._client_meta,\n        )\n",
       "        try:\n            meta, resp_body = await self.transport.perform_request(\n                method,\n                target,\n                headers=request_headers,\n                body=body,\n                request_timeout=self._request_timeout,\n                max_retries=self._max_retries,\n                retry_on_status=self._retry_on_status,\n                retry_on_timeout=self._retry_on_timeout,\n                client_meta=self._client_meta,\n            )\n        except BaseException:\n            self.on_request_end()\n            raise\n")],
]

# ---- hardening round 2: realistic refactorings (extracted helpers, if/else for conditional expressions, hoisted bound methods, renamed parameters, keyword calls) --------
_CALL_HEAD = "    async def __call__(self, *args, **kwargs):\n        any_task_completes_parent = self.task.any_completes_parent\n"
_SLEEP_BLOCK = ("                if throughput_throttled:\n                    rest = absolute_expected_schedule_time - time.perf_counter()\n                    if rest > 0:\n"
                "                        await asyncio.sleep(rest)\n")
_PROGRESS_CHAIN = ("                if completed:\n                    progress = 1.0\n                elif runner.percent_completed:\n                    progress = runner.percent_completed\n"
                   "                else:\n                    progress = percent_completed\n")
_WAIT_HELPER = ("    @staticmethod\n    async def _wait_until(point_in_time):\n        rest = point_in_time - time.perf_counter()\n        if rest > 0:\n            await asyncio.sleep(rest)\n\n")
_PROGRESS_HELPER = ("    @staticmethod\n    def _progress(runner, completed, percent_completed):\n        if completed:\n            return 1.0\n        if runner.percent_completed:\n"
                    "            return runner.percent_completed\n        return percent_completed\n\n")
_LATENCY = "                latency = request_end - absolute_expected_schedule_time if throughput_throttled else service_time\n"
_UNPACK_BLOCK = ("        if isinstance(return_value, tuple) and len(return_value) == 2:\n            total_ops, total_ops_unit = return_value\n            request_meta_data = {\"success\": True}\n"
                 "        elif isinstance(return_value, dict):\n            total_ops = return_value.pop(\"weight\", 1)\n            total_ops_unit = return_value.pop(\"unit\", \"ops\")\n"
                 "            request_meta_data = return_value\n            if \"success\" not in request_meta_data:\n                request_meta_data[\"success\"] = True\n"
                 "        else:\n            total_ops = 1\n            total_ops_unit = \"ops\"\n            request_meta_data = {\"success\": True}\n")
_ES_HEAD = "async def execute_single(runner, es, params, on_error):\n"


def _unpack_helper(ret):
    return ("def _unpack_runner_result(return_value):\n    if isinstance(return_value, tuple) and len(return_value) == 2:\n        ops, unit = return_value\n        meta = {\"success\": True}\n"
            "    elif isinstance(return_value, dict):\n        ops = return_value.pop(\"weight\", 1)\n        unit = return_value.pop(\"unit\", \"ops\")\n        meta = return_value\n"
            "        meta.setdefault(\"success\", True)\n    else:\n        ops = 1\n        unit = \"ops\"\n        meta = {\"success\": True}\n    return " + ret + "\n\n\n")


_ADD_CALL_ARGS = ("                self.sampler.add(\n                    self.task,\n                    self.client_id,\n                    sample_type,\n                    request_meta_data,\n"
                  "                    absolute_processing_start,\n                    request_start,\n                    latency,\n                    service_time,\n                    processing_time,\n"
                  "                    throughput,\n                    total_ops,\n                    total_ops_unit,\n                    time_period,\n                    progress,\n"
                  "                    request_meta_data.pop(\"dependent_timing\", None),\n                )\n")


def _kw_call(callee, task, client, ops="total_ops", unit="total_ops_unit", indent="                "):
    rows = [("task", task), ("client_id", client), ("sample_type", "sample_type"), ("request_meta_data", "request_meta_data"), ("absolute_time", "absolute_processing_start"),
            ("request_start", "request_start"), ("latency", "latency"), ("service_time", "service_time"), ("processing_time", "processing_time"), ("throughput", "throughput"),
            ("total_ops", ops), ("total_ops_unit", unit), ("time_period", "time_period"), ("percent_completed", "progress"),
            ("dependent_timing", "request_meta_data.pop(\"dependent_timing\", None)")]
    return indent + callee + "(\n" + "".join(f"{indent}    {k}={v},\n" for k, v in rows) + indent + ")\n"


_ADD_SIG_OLD = "        sample_type,\n        meta_data,\n        absolute_time,\n        request_start,\n        latency,\n        service_time,\n        processing_time,\n        throughput,\n        ops,\n        ops_unit,\n        time_period,\n"
_ADD_SIG_NEW = "        sample_type,\n        request_meta_data,\n        absolute_time,\n        request_start,\n        latency,\n        service_time,\n        processing_time,\n        throughput,\n        total_ops,\n        total_ops_unit,\n        time_period,\n"
_CTOR_OLD = "                    sample_type,\n                    meta_data,\n                    latency,\n                    service_time,\n                    processing_time,\n                    throughput,\n                    ops,\n                    ops_unit,\n"
_CTOR_NEW = "                    sample_type,\n                    request_meta_data,\n                    latency,\n                    service_time,\n                    processing_time,\n                    throughput,\n                    total_ops,\n                    total_ops_unit,\n"
_LOOP_HEAD = "            async for expected_scheduled_time, sample_type, percent_completed, runner, params in schedule:\n                if self.cancel.is_set():\n"
_HOIST = ("            cancelled = self.cancel.is_set\n            add_sample = self.sampler.add\n            new_request_context = self.es[\"default\"].new_request_context\n"
          "            task = self.task\n            client_id = self.client_id\n"
          "            async for expected_scheduled_time, sample_type, percent_completed, runner, params in schedule:\n                if cancelled():\n")
_WITH_OLD = "                with self.es[\"default\"].new_request_context() as request_context:\n"
_WITH_NEW = "                with new_request_context() as request_context:\n"
_ADD_HEAD_OLD = "                self.sampler.add(\n                    self.task,\n                    self.client_id,\n"
_F39_HANDLER = ("        except BaseException:\n            # aiohttp only signals `on_request_exception` until the response *headers* have arrived. A request that fails\n"
                "            # later (timeout / disconnect while the body is read) ends now and not when its headers were received.\n"
                "            try:\n                RequestContextHolder.on_request_end()\n            except LookupError:\n                pass\n            raise\n")
_ABORT_BLOCK = ("    if not request_meta_data[\"success\"]:\n        if on_error == \"abort\" or fatal_error:\n            msg = \"Request returned an error. Error type: %s\" % request_meta_data.get(\"error-type\", \"Unknown\")\n\n"
                "            if description := request_meta_data.get(\"error-description\"):\n                msg += f\", Description: {description}\"\n\n"
                "            if http_status := request_meta_data.get(\"http-status\"):\n                msg += f\", HTTP Status: {http_status}\"\n\n            raise exceptions.RallyAssertionError(msg)\n")


def _abort_merged(cond):
    return ("    if " + cond + ":\n        error_type = request_meta_data.get(\"error-type\", \"Unknown\")\n        msg = f\"Request returned an error. Error type: {error_type}\"\n"
            "        if description := request_meta_data.get(\"error-description\"):\n            msg += f\", Description: {description}\"\n"
            "        if http_status := request_meta_data.get(\"http-status\"):\n            msg += f\", HTTP Status: {http_status}\"\n        raise exceptions.RallyAssertionError(msg)\n")



VARIANTS += [
    [V("h2 keep (C04-b1): sleep-until and progress selection extracted into helper methods of the executor", "keep", _D, _CALL_HEAD, _WAIT_HELPER + _PROGRESS_HELPER + _CALL_HEAD),
     V("", "keep", _D, _SLEEP_BLOCK, "                if throughput_throttled:\n                    await self._wait_until(absolute_expected_schedule_time)\n"),
     V("", "keep", _D, _PROGRESS_CHAIN, "                progress = self._progress(runner, completed, percent_completed)\n")],
    [V("h2 break: the extracted sleep-until helper is handed the relative scheduled time", "break", _D, _CALL_HEAD, _WAIT_HELPER + _CALL_HEAD, "O4.3"),
     V("", "break", _D, _SLEEP_BLOCK, "                if throughput_throttled:\n                    await self._wait_until(expected_scheduled_time)\n")],
    [V("h2 break: the extracted sleep-until helper skips waits below a millisecond", "break", _D, _CALL_HEAD, _WAIT_HELPER.replace("if rest > 0:", "if rest > 0.001:") + _CALL_HEAD, "O4.3"),
     V("", "break", _D, _SLEEP_BLOCK, "                if throughput_throttled:\n                    await self._wait_until(absolute_expected_schedule_time)\n")],
    [V("h2 break: the extracted sleep-until helper is awaited for every request but waits only when the task is NOT completed externally", "break", _D, _CALL_HEAD,
       "    async def _wait_until(self, point_in_time):\n        rest = point_in_time - time.perf_counter()\n        if rest > 0 and not self.complete.is_set():\n            await asyncio.sleep(rest)\n\n" + _CALL_HEAD, "O4.3"),
     V("", "break", _D, _SLEEP_BLOCK, "                if throughput_throttled:\n                    await self._wait_until(absolute_expected_schedule_time)\n")],
    [V("h2 keep: sleep-until helper with a guard clause, one clock read through a local, throttle test inside the helper", "keep", _D, _CALL_HEAD,
       "    @staticmethod\n    async def _wait_until(throttled, point_in_time):\n        if not throttled:\n            return\n        now = time.perf_counter()\n        remaining = point_in_time - now\n"
       "        if remaining <= 0:\n            return\n        await asyncio.sleep(remaining)\n\n" + _CALL_HEAD),
     V("", "keep", _D, _SLEEP_BLOCK, "                await self._wait_until(throughput_throttled, absolute_expected_schedule_time)\n")],
    V("h2 keep: sleep-until with the tests merged and flipped", "keep", _D, _SLEEP_BLOCK,
      "                rest = absolute_expected_schedule_time - time.perf_counter()\n                if 0 < rest and throughput_throttled:\n                    await asyncio.sleep(rest)\n"),
    V("h2 break: the progress helper's result lands in the sample's throughput slot (swapped at the call)", "break", _D,
      "                    throughput,\n                    total_ops,\n                    total_ops_unit,\n                    time_period,\n                    progress,\n",
      "                    progress,\n                    total_ops,\n                    total_ops_unit,\n                    time_period,\n                    throughput,\n", "O4.5"),
    V("h2 keep: latency chosen by an if/else statement instead of a conditional expression", "keep", _D, _LATENCY,
      "                if throughput_throttled:\n                    latency = request_end - absolute_expected_schedule_time\n                else:\n                    latency = service_time\n"),
    V("h2 break: latency chosen by an if/else statement with the arms the wrong way round", "break", _D, _LATENCY,
      "                if throughput_throttled:\n                    latency = service_time\n                else:\n                    latency = request_end - absolute_expected_schedule_time\n", "O4.1"),
    V("h2 keep (C04-b2): error flag bound to the exact-type comparison itself", "keep", _D, "        if type(e) is elasticsearch.ConnectionError:\n            fatal_error = True\n",
      "        fatal_error = type(e) is elasticsearch.ConnectionError\n"),
    V("h2 break: error flag bound to an isinstance test (time-outs of subclasses become fatal)", "break", _D, "        if type(e) is elasticsearch.ConnectionError:\n            fatal_error = True\n",
      "        fatal_error = isinstance(e, elasticsearch.ConnectionError)\n", "O4.6"),
    V("h2 break: error flag raised for everything but the exact type", "break", _D, "        if type(e) is elasticsearch.ConnectionError:\n            fatal_error = True\n",
      "        fatal_error = type(e) is not elasticsearch.ConnectionError\n", "O4.6"),
    V("h2 keep (C04-b2): abort policy as one merged condition, body de-indented (the final return follows a guard clause that raises)", "keep", _D, _ABORT_BLOCK,
      _abort_merged("not request_meta_data[\"success\"] and (fatal_error or \"abort\" == on_error)")),
    V("h2 break: merged, de-indented abort condition that needs BOTH abort and a fatal error", "break", _D, _ABORT_BLOCK,
      _abort_merged("not request_meta_data[\"success\"] and (fatal_error and \"abort\" == on_error)"), "O4.6"),
    V("h2 break: merged, de-indented abort condition that also aborts successful requests", "break", _D, _ABORT_BLOCK,
      _abort_merged("not request_meta_data[\"success\"] or fatal_error or \"abort\" == on_error"), "O4.6"),
    [V("h2 keep (C09-b1): normalisation of the runner's result extracted into a module function with its own local names", "keep", _D, _ES_HEAD, _unpack_helper("ops, unit, meta") + _ES_HEAD),
     V("", "keep", _D, _UNPACK_BLOCK, "        total_ops, total_ops_unit, request_meta_data = _unpack_runner_result(return_value)\n")],
    [V("h2 break: the extracted normalisation returns unit and weight the other way round", "break", _D, _ES_HEAD, _unpack_helper("unit, ops, meta") + _ES_HEAD, "O4.6"),
     V("", "break", _D, _UNPACK_BLOCK, "        total_ops, total_ops_unit, request_meta_data = _unpack_runner_result(return_value)\n")],
    [V("h2 keep (C04-b3): parameters of Sampler.add renamed, the sampler called with keyword arguments", "keep", _D, _ADD_SIG_OLD, _ADD_SIG_NEW),
     V("", "keep", _D, _CTOR_OLD, _CTOR_NEW),
     V("", "keep", _D, _ADD_CALL_ARGS, _kw_call("self.sampler.add", "self.task", "self.client_id"))],
    [V("h2 break: renamed parameters, keyword call that hands the unit over as number of operations", "break", _D, _ADD_SIG_OLD, _ADD_SIG_NEW, "O4."),
     V("", "break", _D, _CTOR_OLD, _CTOR_NEW),
     V("", "break", _D, _ADD_CALL_ARGS, _kw_call("self.sampler.add", "self.task", "self.client_id", ops="total_ops_unit", unit="total_ops"))],
    [V("h2 keep (C18-b4): bound methods and attributes of the executor hoisted out of the request loop", "keep", _D, _LOOP_HEAD, _HOIST),
     V("", "keep", _D, _WITH_OLD, _WITH_NEW),
     V("", "keep", _D, _ADD_HEAD_OLD, "                add_sample(\n                    task,\n                    client_id,\n")],
    [V("h2 break: hoisted shape, the sample is only recorded for requests with operations", "break", _D, _LOOP_HEAD, _HOIST, "O4.4"),
     V("", "break", _D, _ADD_HEAD_OLD, "                if total_ops > 0:\n                  add_sample(\n                    task,\n                    client_id,\n")],
    [V("h2 break: hoisted shape, client id and task handed over the other way round", "break", _D, _LOOP_HEAD, _HOIST, "O4.5"),
     V("", "break", _D, _ADD_HEAD_OLD, "                add_sample(\n                    client_id,\n                    task,\n")],
    V("h2 keep: recording the end of a failed wire request extracted into a method of the node class", "keep", _A, _F39_HANDLER,
      "        except BaseException:\n            self._request_failed()\n            raise\n\n    @staticmethod\n    def _request_failed():\n        try:\n            RequestContextHolder.on_request_end()\n"
      "        except LookupError:\n            pass\n"),
    V("h2 break: the extracted recorder only records when no end was recorded before", "break", _A, _F39_HANDLER,
      "        except BaseException:\n            self._request_failed()\n            raise\n\n    @staticmethod\n    def _request_failed():\n        try:\n"
      "            if RequestContextHolder.request_context.get().get(\"request_end\") is None:\n                RequestContextHolder.on_request_end()\n        except LookupError:\n            pass\n", "O4.8"),
]

_CANCEL_TEST = "                if self.cancel.is_set():\n                    self.logger.info(\"User cancelled execution.\")\n                    break\n"
VARIANTS += [
    V("h2 keep: abort requested spelled as a membership test, success read with .get()", "keep", _D,
      "    if not request_meta_data[\"success\"]:\n        if on_error == \"abort\" or fatal_error:\n", "    if not request_meta_data.get(\"success\"):\n        if fatal_error or on_error in (\"abort\",):\n"),
    V("h2 keep: a request counter is incremented before the cancellation test of the iteration", "keep", _D, _LOOP_HEAD,
      "            iteration = 0\n            async for expected_scheduled_time, sample_type, percent_completed, runner, params in schedule:\n                iteration += 1\n                if self.cancel.is_set():\n"),
    [V("h2 break: the cancellation test is only reached after the throttle wait", "break", _D, _CANCEL_TEST, "", "O4.3"),
     V("", "break", _D, _SLEEP_BLOCK, _SLEEP_BLOCK + _CANCEL_TEST)],
    [V("h2 keep: cancellation test through a predicate method of the executor", "keep", _D, _CALL_HEAD, "    def _cancelled(self):\n        return self.cancel.is_set()\n\n" + _CALL_HEAD),
     V("", "keep", _D, "                if self.cancel.is_set():\n                    self.logger.info(\"User cancelled", "                if self._cancelled():\n                    self.logger.info(\"User cancelled")],
]

_RAMPUP = ("        rampup_wait_time = self.schedule_handle.ramp_up_wait_time\n        if rampup_wait_time:\n"
           "            self.logger.debug(\"client id [%s] waiting [%.2f]s for ramp-up.\", self.client_id, rampup_wait_time)\n            await asyncio.sleep(rampup_wait_time)\n")
_ZERO = "        schedule_start = time.perf_counter() if rampup_wait_time else total_start\n"


def _start_helper(ret_after_wait):
    return ("    async def _start_schedule(self, task_start):\n        delay = self.schedule_handle.ramp_up_wait_time\n        if not delay:\n            return task_start\n"
            "        self.logger.debug(\"client id [%s] waiting [%.2f]s for ramp-up.\", self.client_id, delay)\n        await asyncio.sleep(delay)\n        return " + ret_after_wait + "\n\n")


VARIANTS += [
    [V("h2 keep: ramp-up wait extracted into a coroutine method that returns the wait amount", "keep", _D, _CALL_HEAD,
       "    async def _ramp_up(self):\n        delay = self.schedule_handle.ramp_up_wait_time\n        if delay:\n            await asyncio.sleep(delay)\n        return delay\n\n" + _CALL_HEAD),
     V("", "keep", _D, _RAMPUP, "        rampup_wait_time = await self._ramp_up()\n")],
    [V("h2 keep: ramp-up wait and the choice of the schedule's zero point extracted into one coroutine method", "keep", _D, _CALL_HEAD, _start_helper("time.perf_counter()") + _CALL_HEAD),
     V("", "keep", _D, _RAMPUP, ""),
     V("", "keep", _D, _ZERO, "        schedule_start = await self._start_schedule(total_start)\n")],
    [V("h2 break: the extracted start-up helper returns the task start also after it has waited (F40 inside the helper)", "break", _D, _CALL_HEAD, _start_helper("task_start") + _CALL_HEAD, "O4.7"),
     V("", "break", _D, _RAMPUP, ""),
     V("", "break", _D, _ZERO, "        schedule_start = await self._start_schedule(total_start)\n")],
]

VARIANTS += [
    V("h2 break: the loop is left between the finished request and its sample when the request carried no operations", "break", _D,
      "                throughput = request_meta_data.pop(\"throughput\", None)\n", "                throughput = request_meta_data.pop(\"throughput\", None)\n                if total_ops == 0:\n                    break\n", "O4.4"),
]

_LAT_HELPER = "    @staticmethod\n    def _latency(throttled, end, scheduled, service_time):\n        if %s:\n            return service_time\n        return end - scheduled\n\n"
_LAT_CALL = "                latency = self._latency(throughput_throttled, request_end, absolute_expected_schedule_time, service_time)\n"
_STAMPS = "                absolute_processing_start = time.time()\n                processing_start = time.perf_counter()\n"
_ES_PRE = "    fatal_error = False\n    try:\n        async with runner:"
_TE_ZERO = "        fatal_error = True\n\n        total_ops = 0\n        total_ops_unit = \"ops\"\n"
_AE_ZERO = "    except elasticsearch.ApiError as e:\n        total_ops = 0\n        total_ops_unit = \"ops\"\n"
_TE_META = "        request_meta_data = {\"success\": False, \"error-type\": \"transport\"}\n"
VARIANTS += [
    [V("h2 keep: latency computed by a helper with a guard clause", "keep", _D, _CALL_HEAD, (_LAT_HELPER % "not throttled") + _CALL_HEAD), V("", "keep", _D, _LATENCY, _LAT_CALL)],
    [V("h2 break: the latency helper returns the service time for THROTTLED requests", "break", _D, _CALL_HEAD, (_LAT_HELPER % "throttled") + _CALL_HEAD, "O4.1"), V("", "break", _D, _LATENCY, _LAT_CALL)],
    V("h2 keep: sleep-until with an assignment expression in the merged test", "keep", _D, _SLEEP_BLOCK,
      "                if throughput_throttled and (rest := absolute_expected_schedule_time - time.perf_counter()) > 0:\n                    await asyncio.sleep(rest)\n"),
    V("h2 keep: sleep-until as a clamped amount", "keep", _D, _SLEEP_BLOCK,
      "                if throughput_throttled:\n                    await asyncio.sleep(max(0.0, absolute_expected_schedule_time - time.perf_counter()))\n"),
    V("h2 break: clamped sleep-until on the relative scheduled time", "break", _D, _SLEEP_BLOCK,
      "                if throughput_throttled:\n                    await asyncio.sleep(max(0.0, expected_scheduled_time - time.perf_counter()))\n", "O4.3"),
    V("h2 keep: the monotonic clock function hoisted into a local of the executor", "keep", _D, "        total_start = time.perf_counter()\n        # lazily",
      "        now = time.perf_counter\n        total_start = now()\n        # lazily"),
    V("h2 keep: progress chosen by one conditional expression", "keep", _D, _PROGRESS_CHAIN, "                progress = 1.0 if completed else (runner.percent_completed or percent_completed)\n"),
    V("h2 keep: both time stamps of the request taken by one tuple assignment", "keep", _D, _STAMPS, "                absolute_processing_start, processing_start = time.time(), time.perf_counter()\n"),
    V("h2 break: tuple assignment of the time stamps with the clocks the other way round", "break", _D, _STAMPS,
      "                absolute_processing_start, processing_start = time.perf_counter(), time.time()\n", "O4."),
    [V("h2 keep: zero operations / unit of the error results bound once before the request's try", "keep", _D, _ES_PRE, "    fatal_error = False\n    total_ops = 0\n    total_ops_unit = \"ops\"\n    try:\n        async with runner:"),
     V("", "keep", _D, _TE_ZERO, "        fatal_error = True\n\n"), V("", "keep", _D, _AE_ZERO, "    except elasticsearch.ApiError as e:\n")],
    [V("h2 break: the default bound before the request's try counts a failed request as one operation", "break", _D, _ES_PRE, "    fatal_error = False\n    total_ops = 1\n    total_ops_unit = \"ops\"\n    try:\n        async with runner:", "O4.6"),
     V("", "break", _D, _TE_ZERO, "        fatal_error = True\n\n"), V("", "break", _D, _AE_ZERO, "    except elasticsearch.ApiError as e:\n")],
    [V("h2 keep: the meta data of a failed request built by a module function", "keep", _D, _ES_HEAD, "def _failure(error_type):\n    return {\"success\": False, \"error-type\": error_type}\n\n\n" + _ES_HEAD),
     V("", "keep", _D, _TE_META, "        request_meta_data = _failure(\"transport\")\n")],
    [V("h2 break: the module function that builds the meta data of a failed request reports success", "break", _D, _ES_HEAD,
       "def _failure(error_type):\n    return {\"success\": True, \"error-type\": error_type}\n\n\n" + _ES_HEAD, "O4.6"),
     V("", "break", _D, _TE_META, "        request_meta_data = _failure(\"transport\")\n")],
    V("h2 keep: the runner's result kept as one value and unpacked by a second statement", "keep", _D,
      "                    total_ops, total_ops_unit, request_meta_data = await execute_single(runner, self.es, params, self.on_error)\n",
      "                    result = await execute_single(runner, self.es, params, self.on_error)\n                    total_ops, total_ops_unit, request_meta_data = result\n"),
    V("h2 break: the runner's result kept as one value and unpacked in the wrong order", "break", _D,
      "                    total_ops, total_ops_unit, request_meta_data = await execute_single(runner, self.es, params, self.on_error)\n",
      "                    result = await execute_single(runner, self.es, params, self.on_error)\n                    total_ops_unit, total_ops, request_meta_data = result\n", "O4.6"),
]

_NODE_TRY = "        try:\n            return await super().perform_request(*args, **kwargs)\n" + _F39_HANDLER


def _flag_finally(initial):
    return ("        failed = " + initial + "\n        try:\n            response = await super().perform_request(*args, **kwargs)\n            failed = False\n            return response\n"
            "        finally:\n            if failed:\n                try:\n                    RequestContextHolder.on_request_end()\n                except LookupError:\n                    pass\n")


_ON_START = "    def on_request_start(cls):\n        cls.update_request_start(time.perf_counter())\n"
_ON_END = "    def on_request_end(cls):\n        cls.update_request_end(time.perf_counter())\n"
VARIANTS += [
    V("h2 keep: the end of a failed wire request recorded in a finally clause behind a success flag", "keep", _A, _NODE_TRY, _flag_finally("True")),
    V("h2 break: the success flag of the finally clause starts out False (nothing is ever recorded)", "break", _A, _NODE_TRY, _flag_finally("False"), "O4.8"),
    [V("h2 keep: the holder reads the monotonic clock through a helper of its own", "keep", _C, _ON_START,
       "    def on_request_start(cls):\n        cls.update_request_start(cls._now())\n\n    @staticmethod\n    def _now():\n        return time.perf_counter()\n"),
     V("", "keep", _C, _ON_END, "    def on_request_end(cls):\n        cls.update_request_end(cls._now())\n")],
    [V("h2 break: the holder's clock helper reads the wall clock", "break", _C, _ON_START,
       "    def on_request_start(cls):\n        cls.update_request_start(cls._now())\n\n    @staticmethod\n    def _now():\n        return time.time()\n", "O4.2"),
     V("", "break", _C, _ON_END, "    def on_request_end(cls):\n        cls.update_request_end(cls._now())\n")],
]

_RECORD_HELPER = ("    def _record(self, sample_type, meta, issued_at, start, latency, service_time, processing_time, throughput, ops, unit, period, progress):\n"
                  "        self.sampler.add(\n            self.task,\n            self.client_id,\n            sample_type,\n            meta,\n            issued_at,\n            start,\n            latency,\n"
                  "            service_time,\n            processing_time,\n            throughput,\n            ops,\n            unit,\n            period,\n            progress,\n"
                  "            meta.pop(\"dependent_timing\", None),\n        )\n\n")
_RECORD_CALL = ("                self._record(sample_type, request_meta_data, absolute_processing_start, request_start, latency, service_time, processing_time, throughput, total_ops, "
                "total_ops_unit, time_period, progress)\n")
VARIANTS += [
    [V("h2 keep: the call that hands the sample to the sampler extracted into a method of the executor with its own parameter names", "keep", _D, _CALL_HEAD, _RECORD_HELPER + _CALL_HEAD),
     V("", "keep", _D, _ADD_CALL_ARGS, _RECORD_CALL)],
    [V("h2 break: the extracted recording method is called with latency and service time the other way round", "break", _D, _CALL_HEAD, _RECORD_HELPER + _CALL_HEAD, "O4.5"),
     V("", "break", _D, _ADD_CALL_ARGS, _RECORD_CALL.replace("latency, service_time, processing_time", "service_time, latency, processing_time"))],
    [V("h2 break: the extracted recording method only records requests that carried operations", "break", _D, _CALL_HEAD,
       _RECORD_HELPER.replace("        self.sampler.add(\n            self.task,", "        if ops:\n          self.sampler.add(\n            self.task,") + _CALL_HEAD, "O4.4"),
     V("", "break", _D, _ADD_CALL_ARGS, _RECORD_CALL)],
]

# ---- hardening round 3: the request of an iteration located by role (the request context may be entered in a helper the loop awaits; results followed by position) ---------------------
_REQ_BLOCK = ("                with self.es[\"default\"].new_request_context() as request_context:\n"
              "                    total_ops, total_ops_unit, request_meta_data = await execute_single(runner, self.es, params, self.on_error)\n"
              "                    request_start = request_context.request_start\n                    request_end = request_context.request_end\n")
_REQ_CALL = "                total_ops, total_ops_unit, request_meta_data, request_start, request_end = await self._execute_request(runner, params)\n"
_RUN_LINE = "                    total_ops, total_ops_unit, request_meta_data = await execute_single(runner, self.es, params, self.on_error)\n"
_SPANS_OLD = "                service_time = request_end - request_start\n                processing_time = processing_end - processing_start\n                time_period = request_end - total_start\n"
_SPANS_CALL = "                service_time, processing_time, time_period = self._spans(request_start, request_end, processing_start, processing_end, total_start)\n"
_TIMED_OLD = ("                processing_start = time.perf_counter()\n                self.schedule_handle.before_request(processing_start)\n" + _REQ_BLOCK +
              "\n                processing_end = time.perf_counter()\n")
_TIMED_CALL = ("                total_ops, total_ops_unit, request_meta_data, request_start, request_end, processing_start, processing_end = await self._timed_request(runner, params)\n")


def _req_helper(ret="total_ops, total_ops_unit, request_meta_data, request_start, request_end", inside=True):
    run = "total_ops, total_ops_unit, request_meta_data = await execute_single(runner, self.es, params, self.on_error)\n"
    if inside:
        body = ("        with self.es[\"default\"].new_request_context() as request_context:\n            " + run +
                "            request_start = request_context.request_start\n            request_end = request_context.request_end\n")
    else:
        body = ("        with self.es[\"default\"].new_request_context() as request_context:\n            pass\n        " + run +
                "        request_start = request_context.request_start\n        request_end = request_context.request_end\n")
    return "    async def _execute_request(self, runner, params):\n        \"\"\"one request in a request context of its own\"\"\"\n" + body + "        return " + ret + "\n\n"


def _spans_helper(ret="request_end - request_start, processing_end - processing_start, request_end - task_start"):
    return "    @staticmethod\n    def _spans(request_start, request_end, processing_start, processing_end, task_start):\n        return " + ret + "\n\n"


def _timed_helper(before="", end_inside=False):
    return ("    async def _timed_request(self, runner, params):\n        processing_start = time.perf_counter()\n        self.schedule_handle.before_request(processing_start)\n" + before +
            "        with self.es[\"default\"].new_request_context() as request_context:\n"
            "            total_ops, total_ops_unit, request_meta_data = await execute_single(runner, self.es, params, self.on_error)\n"
            "            request_start = request_context.request_start\n            request_end = request_context.request_end\n" +
            ("            processing_end = time.perf_counter()\n" if end_inside else "        processing_end = time.perf_counter()\n") +
            "        return total_ops, total_ops_unit, request_meta_data, request_start, request_end, processing_start, processing_end\n\n")


VARIANTS += [
    [V("h3 keep (C18-b6): request context, runner invocation and the reads of start / end extracted into a coroutine method that returns them with the result triple", "keep", _D,
       _CALL_HEAD, _req_helper() + _CALL_HEAD), V("", "keep", _D, _REQ_BLOCK, _REQ_CALL)],
    [V("h3 keep: the request helper returns the context object, the loop reads start / end from it (same local name as in the helper)", "keep", _D, _CALL_HEAD,
       _req_helper("total_ops, total_ops_unit, request_meta_data, request_context") + _CALL_HEAD),
     V("", "keep", _D, _REQ_BLOCK, "                total_ops, total_ops_unit, request_meta_data, request_context = await self._execute_request(runner, params)\n"
       "                request_start = request_context.request_start\n                request_end = request_context.request_end\n")],
    [V("h3 keep: request helper as a module function with its own names, the runner's result handed on as one value and unpacked by a second statement", "keep", _D, _ES_HEAD,
       "async def _timed_request(es, runner, params, on_error):\n    with es[\"default\"].new_request_context() as ctx:\n        result = await execute_single(runner, es, params, on_error)\n"
       "        started, ended = ctx.request_start, ctx.request_end\n    return result, started, ended\n\n\n" + _ES_HEAD),
     V("", "keep", _D, _REQ_BLOCK, "                result, request_start, request_end = await _timed_request(self.es, runner, params, self.on_error)\n"
       "                total_ops, total_ops_unit, request_meta_data = result\n")],
    [V("h3 keep: request helper that is handed the context factory and returns the result spread into its tuple (*outcome, start, end)", "keep", _D, _CALL_HEAD,
       "    async def _in_context(self, new_context, runner, params):\n        with new_context() as ctx:\n            outcome = await execute_single(runner, self.es, params, self.on_error)\n"
       "        return (*outcome, ctx.request_start, ctx.request_end)\n\n" + _CALL_HEAD),
     V("", "keep", _D, _REQ_BLOCK,
       "                total_ops, total_ops_unit, request_meta_data, request_start, request_end = await self._in_context(self.es[\"default\"].new_request_context, runner, params)\n")],
    [V("h3 keep: the runner invocation extracted into a coroutine method awaited inside the request context", "keep", _D, _CALL_HEAD,
       "    async def _invoke(self, runner, params):\n        return await execute_single(runner, self.es, params, self.on_error)\n\n" + _CALL_HEAD),
     V("", "keep", _D, _RUN_LINE, "                    total_ops, total_ops_unit, request_meta_data = await self._invoke(runner, params)\n")],
    [V("h3 keep: the whole timed section (both clock reads around the request context) extracted into a coroutine method", "keep", _D, _CALL_HEAD, _timed_helper() + _CALL_HEAD),
     V("", "keep", _D, _TIMED_OLD, _TIMED_CALL)],
    [V("h3 keep: service time, processing time and time period computed by one helper that returns the three differences", "keep", _D, _CALL_HEAD, _spans_helper() + _CALL_HEAD),
     V("", "keep", _D, _SPANS_OLD, _SPANS_CALL)],
    V("h3 keep: start / end of the request read after the request context by one tuple assignment", "keep", _D, _REQ_BLOCK,
      "                with self.es[\"default\"].new_request_context() as request_context:\n" + _RUN_LINE +
      "                request_start, request_end = request_context.request_start, request_context.request_end\n"),
    V("h3 keep: the request wrapped in try / finally (a debug line when it is done)", "keep", _D, _REQ_BLOCK,
      "                try:\n" + "".join("    " + l + "\n" for l in _REQ_BLOCK.splitlines()) + "                finally:\n                    self.logger.debug(\"request done\")\n"),
    [V("h3 keep: the sampler's start timestamp handed to Sample(...) through a local", "keep", _D, "                    self.start_timestamp,\n", "                    started,\n"),
     V("", "keep", _D, "        try:\n            self.q.put_nowait(\n", "        started = self.start_timestamp\n        try:\n            self.q.put_nowait(\n")],
    [V("h3 break: the request helper returns end and start of the request the other way round", "break", _D, _CALL_HEAD,
       _req_helper("total_ops, total_ops_unit, request_meta_data, request_end, request_start") + _CALL_HEAD, "O4.1"), V("", "break", _D, _REQ_BLOCK, _REQ_CALL)],
    [V("h3 break: the request helper invokes the runner after it has left the request context", "break", _D, _CALL_HEAD, _req_helper(inside=False) + _CALL_HEAD, "O4.2"),
     V("", "break", _D, _REQ_BLOCK, _REQ_CALL)],
    [V("h3 break: the request helper returns unit and number of operations the other way round", "break", _D, _CALL_HEAD,
       _req_helper("total_ops_unit, total_ops, request_meta_data, request_start, request_end") + _CALL_HEAD, "O4."), V("", "break", _D, _REQ_BLOCK, _REQ_CALL)],
    [V("h3 break: request helper shape, processing_start taken after the request", "break", _D, _CALL_HEAD, _req_helper() + _CALL_HEAD, "O4.2"),
     V("", "break", _D, _STAMPS + "                self.schedule_handle.before_request(processing_start)\n" + _REQ_BLOCK,
       "                absolute_processing_start = time.time()\n" + _REQ_CALL + "                processing_start = time.perf_counter()\n                self.schedule_handle.before_request(processing_start)\n")],
    [V("h3 break: request helper shape, the loop is left between the finished request and its sample", "break", _D, _CALL_HEAD, _req_helper() + _CALL_HEAD, "O4.4"),
     V("", "break", _D, _REQ_BLOCK, _REQ_CALL),
     V("", "break", _D, "                throughput = request_meta_data.pop(\"throughput\", None)\n", "                throughput = request_meta_data.pop(\"throughput\", None)\n                if total_ops == 0:\n                    break\n")],
    [V("h3 break: request helper shape, the sleep-until is gone", "break", _D, _CALL_HEAD, _req_helper() + _CALL_HEAD, "O4.3"), V("", "break", _D, _REQ_BLOCK, _REQ_CALL),
     V("", "break", _D, "                    if rest > 0:\n                        await asyncio.sleep(rest)\n", "                    pass\n")],
    [V("h3 break: the timed-section helper reads processing_end inside the request context", "break", _D, _CALL_HEAD, _timed_helper(end_inside=True) + _CALL_HEAD, "O4.2"),
     V("", "break", _D, _TIMED_OLD, _TIMED_CALL)],
    [V("h3 break: the timed-section helper sleeps between processing_start and the request", "break", _D, _CALL_HEAD,
       _timed_helper(before="        await asyncio.sleep(0.001)\n") + _CALL_HEAD, "O4.2"), V("", "break", _D, _TIMED_OLD, _TIMED_CALL)],
    [V("h3 break: the spans helper measures the service time up to processing_end", "break", _D, _CALL_HEAD,
       _spans_helper("processing_end - request_start, processing_end - processing_start, request_end - task_start") + _CALL_HEAD, "O4.1"), V("", "break", _D, _SPANS_OLD, _SPANS_CALL)],
    V("h3 break: the sample is only recorded in an except handler", "break", _D, "                self.sampler.add(\n",
      "                try:\n                    pass\n                except Exception:\n                  self.sampler.add(\n", "O4.4"),
    V("h3 break: two calls record the sample on one path of an iteration (the first one under a condition)", "break", _D, _ADD_CALL_ARGS,
      "                if throughput_throttled:\n" + "".join("    " + l + "\n" for l in _ADD_CALL_ARGS.splitlines()) + _ADD_CALL_ARGS, "O4.4"),
    V("h3 break: the abort condition consults no error flag at all", "break", _D, "        if on_error == \"abort\" or fatal_error:", "        if on_error == \"abort\":", "O4.6"),
]

# ---- strengthening round 5: O4.9 (sample type follows the task's clock), O4.10 (a failed request passes the feedback to the schedule), O4.11 (the sampler's queue holds what the
# configuration says) --------------------------------------------------------------------------------------------------------------------------------------------------------------
_TIMER_START = "        # Start the schedule's timer early so the warmup period is independent of any deferred start due to ramp-up\n        self.schedule_handle.start()\n"
_UA_GUARD = "        if weight > 0 and (self.first_request or self.current_weight != weight):\n"
_UA_STATE = "            self.first_request = False\n            self.current_weight = weight\n"
_SH_FEEDBACK = "        self.sched.after_request(now, weight, unit, request_meta_data)\n"
_SAMPLER_MADE = "                self.sampler = Sampler(start_timestamp=time.perf_counter(), buffer_size=self.sample_queue_size)\n"
_QSIZE_READ = "        self.sample_queue_size = int(self.config.opts(\"reporting\", \"sample.queue.size\", mandatory=False, default_value=1 << 20))\n"
_Q_MADE = "        self.q = queue.Queue(maxsize=buffer_size)\n"
VARIANTS += [
    # O4.9
    [V("s5 seed m15: the schedule's timer is started after the ramp-up wait, next to the schedule's zero point", "break", _D, _TIMER_START, "", "O4.9"),
     V("", "break", _D, _ZERO, _ZERO + "        self.schedule_handle.start()\n")],
    [V("s5 break: the schedule's timer is started as the first statement of the request loop's try block (after the ramp-up wait)", "break", _D, _TIMER_START, "", "O4.9"),
     V("", "break", _D, "        try:\n            async for expected_scheduled_time,", "        try:\n            self.schedule_handle.start()\n            async for expected_scheduled_time,")],
    V("s5 break: the schedule's timer is started early and RE-started by a client that had to wait for its ramp-up slot", "break", _D,
      "            await asyncio.sleep(rampup_wait_time)\n", "            await asyncio.sleep(rampup_wait_time)\n            self.schedule_handle.start()\n", "O4.9"),
    V("s5 keep: the ramp-up wait amount is read before the timer is started (both still before the wait)", "keep", _D,
      _TIMER_START + "        rampup_wait_time = self.schedule_handle.ramp_up_wait_time\n", "        rampup_wait_time = self.schedule_handle.ramp_up_wait_time\n" + _TIMER_START),
    V("s5 keep: the timer is started through a local alias of the handle", "keep", _D, _TIMER_START, "        handle = self.schedule_handle\n        handle.start()\n"),
    # O4.10
    [V("s5 seed m13: the unit-aware scheduler validates the unit of a failed request before it ignores the empty result", "break", _S, _UA_GUARD,
       "        if self.first_request or self.current_weight != weight:\n", "O4.10"),
     V("", "break", _S, _UA_STATE, "            if weight <= 0:\n                return\n" + _UA_STATE)],
    V("s5 break: the unit-aware scheduler no longer ignores empty results at all (unit check and a division by the zero weight)", "break", _S, _UA_GUARD,
      "        if self.first_request or self.current_weight != weight:\n", "O4.10"),
    V("s5 break: the unit-aware scheduler takes the zero weight of a failed request (>= instead of >)", "break", _S, _UA_GUARD,
      "        if weight >= 0 and (self.first_request or self.current_weight != weight):\n", "O4.10"),
    V("s5 break: the schedule handle refuses the feedback of a failed request", "break", _D, _SH_FEEDBACK,
      "        if not request_meta_data[\"success\"]:\n            raise exceptions.RallyAssertionError(\"no feedback for a failed request\")\n" + _SH_FEEDBACK, "O4.10"),
    V("s5 break: the executor skips the rest of the iteration - the sample included - for a failed request", "break", _D,
      "                throughput = request_meta_data.pop(\"throughput\", None)\n", "                if not request_meta_data[\"success\"]:\n                    continue\n"
      "                throughput = request_meta_data.pop(\"throughput\", None)\n", "O4.10"),
    V("s5 break: a failed request resets what the unit-aware scheduler has learnt (the next successful request with the same weight is not re-paced after the first failure)", "break", _S, _UA_GUARD,
      "        if weight <= 0:\n            self.scheduler = Unthrottled()\n        if weight > 0 and (self.first_request or self.current_weight != weight):\n", "O4.10"),
    V("s5 keep: the unit-aware scheduler ignores empty results by a guard clause in front of everything else", "keep", _S, _UA_GUARD,
      "        if weight <= 0:\n            return\n        if self.first_request or self.current_weight != weight:\n"),
    V("s5 keep: the schedule handle forwards the feedback with keyword arguments", "keep", _D, _SH_FEEDBACK,
      "        self.sched.after_request(now=now, weight=weight, unit=unit, request_meta_data=request_meta_data)\n"),
    V("s5 keep: the executor feeds the result back to the schedule through a local alias of the bound method", "keep", _D,
      "                self.schedule_handle.after_request(processing_end, total_ops, total_ops_unit, request_meta_data)\n",
      "                feedback = self.schedule_handle.after_request\n                feedback(processing_end, total_ops, total_ops_unit, request_meta_data)\n"),
    # O4.11
    V("s5 seed m14: the worker's sampler is constructed without the configured queue size", "break", _D, _SAMPLER_MADE,
      "                self.sampler = Sampler(start_timestamp=time.perf_counter())\n", "O4.11"),
    V("s5 break: the worker's sampler is constructed with a constant queue size", "break", _D, _SAMPLER_MADE,
      "                self.sampler = Sampler(start_timestamp=time.perf_counter(), buffer_size=16384)\n", "O4.11"),
    V("s5 break: the sampler ignores the queue size it is constructed with", "break", _D, _Q_MADE, "        self.q = queue.Queue(maxsize=16384)\n", "O4.11"),
    V("s5 break: the configured queue size is clamped to the old default", "break", _D, _QSIZE_READ,
      "        self.sample_queue_size = min(int(self.config.opts(\"reporting\", \"sample.queue.size\", mandatory=False, default_value=1 << 20)), 16384)\n", "O4.11"),
    V("s5 break: the configured queue size is no longer converted to a number (an ini file gives text: put_nowait raises a TypeError instead of recording the sample)", "break", _D, _QSIZE_READ,
      "        self.sample_queue_size = self.config.opts(\"reporting\", \"sample.queue.size\", mandatory=False, default_value=1 << 20)\n", "O4.11"),
    V("s5 break: the queue size is read from another option", "break", _D, _QSIZE_READ,
      "        self.sample_queue_size = int(self.config.opts(\"reporting\", \"metrics.request.downsample.factor\", mandatory=False, default_value=1 << 20))\n", "O4.11"),
    V("s5 break: the default of the queue size is 2^10 instead of the documented 2^20", "break", _D, _QSIZE_READ,
      "        self.sample_queue_size = int(self.config.opts(\"reporting\", \"sample.queue.size\", mandatory=False, default_value=1 << 10))\n", "O4.11"),
    V("s5 keep: the sampler is constructed with positional arguments", "keep", _D, _SAMPLER_MADE, "                self.sampler = Sampler(time.perf_counter(), self.sample_queue_size)\n"),
    V("s5 keep: the configured queue size handed over through a local", "keep", _D, _SAMPLER_MADE,
      "                queue_size = self.sample_queue_size\n                self.sampler = Sampler(start_timestamp=time.perf_counter(), buffer_size=queue_size)\n"),
    V("s5 keep: the queue's capacity passed positionally, the default spelled 2 ** 20", "keep", _D, _Q_MADE, "        self.q = queue.Queue(buffer_size)\n"),
    V("s5 keep: the default of the queue size spelled as a power", "keep", _D, _QSIZE_READ,
      "        self.sample_queue_size = int(self.config.opts(\"reporting\", \"sample.queue.size\", mandatory=False, default_value=2 ** 20))\n"),
]

# ---- round 6: O4.12 (one read of the sampler's drain hands out everything) / O4.13 (samples of sub-requests) -----------------------------------------------
_DRAIN = "        try:\n            while True:\n                samples.append(self.q.get_nowait())\n        except queue.Empty:\n            pass\n        return samples\n"
_DRAIN_LOOP = "            while True:\n                samples.append(self.q.get_nowait())\n"
_SAMPLER_DOC = "    Encapsulates management of gathered samples.\n    \"\"\"\n"
_RT_STAMP = "    async def __call__(self, es, params):\n        absolute_time = time.time()\n        with es[\"default\"].new_request_context() as request_context:\n            return_value = await self.delegate(es, params)\n"
_RT_HEAD = "    async def __call__(self, es, params):\n"
_RT_WITH = "        with es[\"default\"].new_request_context() as request_context:\n            return_value = await self.delegate(es, params)\n"
_RT_ABS = "                    \"absolute_time\": absolute_time,\n"
_RT_SPAN = "                    \"service_time\": end - start,\n                }\n        return result\n"
VARIANTS += [
    [V("s6 seed m16: one read of the sampler hands out at most one batch of 2^15 samples (class constant)", "break", _D, _SAMPLER_DOC, _SAMPLER_DOC + "\n    MAX_BATCH_SIZE = 1 << 15\n", "O4.12"),
     V("", "break", _D, _DRAIN_LOOP, "            while len(samples) < Sampler.MAX_BATCH_SIZE:\n                samples.append(self.q.get_nowait())\n")],
    V("s6 break: the drain stops after a literal number of samples", "break", _D, _DRAIN_LOOP, "            while len(samples) < 100000:\n                samples.append(self.q.get_nowait())\n", "O4.12"),
    V("s6 break: the drain walks a bounded range", "break", _D, _DRAIN_LOOP, "            for _ in range(50):\n                samples.append(self.q.get_nowait())\n", "O4.12"),
    V("s6 break: the drain leaves its loop when the batch has reached the old queue size", "break", _D, _DRAIN_LOOP,
      "            while True:\n                samples.append(self.q.get_nowait())\n                if len(samples) >= 16384:\n                    break\n", "O4.12"),
    V("s6 break: the drain reads the queue length once and caps it", "break", _D, _DRAIN,
      "        for _ in range(min(self.q.qsize(), 4096)):\n            samples.append(self.q.get_nowait())\n        return samples\n", "O4.12"),
    V("s6 break: the drain hands out every other sample only", "break", _D, _DRAIN_LOOP,
      "            while True:\n                samples.append(self.q.get_nowait())\n                self.q.get_nowait()\n", "O4.12"),
    V("s6 keep: the drain tests for emptiness instead of waiting for the Empty signal", "keep", _D, _DRAIN, "        while not self.q.empty():\n            samples.append(self.q.get_nowait())\n        return samples\n"),
    V("s6 keep: try inside the loop, break on Empty, the sample through a local", "keep", _D, _DRAIN,
      "        while True:\n            try:\n                sample = self.q.get_nowait()\n            except queue.Empty:\n                break\n            samples.append(sample)\n        return samples\n"),
    V("s6 keep: the drain walks the queue length it read once (single consumer)", "keep", _D, _DRAIN,
      "        for _ in range(self.q.qsize()):\n            samples.append(self.q.get_nowait())\n        return samples\n"),
    V("s6 keep: an unrelated large constant in the Sampler class (the default queue size spelled as a shift)", "keep", _D,
      "    def __init__(self, start_timestamp, buffer_size=16384):\n", "    def __init__(self, start_timestamp, buffer_size=1 << 14):\n"),
    # O4.13
    [V("s6 seed m17: the issue time of a sub-request is read when its timing record is built, after the response", "break", _R, _RT_STAMP, _RT_HEAD + _RT_WITH, "O4.13"),
     V("", "break", _R, _RT_ABS, "                    \"absolute_time\": time.time(),\n")],
    V("s6 break: the issue time of a sub-request is read right after the sub-request has returned", "break", _R, _RT_STAMP, _RT_HEAD + _RT_WITH + "            absolute_time = time.time()\n", "O4.13"),
    V("s6 break: the issue time of a sub-request is a reading of the monotonic clock", "break", _R, "        absolute_time = time.time()\n        with es[\"default\"].new_request_context() as request_context:\n",
      "        absolute_time = time.perf_counter()\n        with es[\"default\"].new_request_context() as request_context:\n", "O4.13"),
    V("s6 break: the issue time of a sub-request is read before a pause that precedes the request", "break", _R, _RT_STAMP,
      _RT_HEAD + "        absolute_time = time.time()\n        await asyncio.sleep(params.get(\"delay\", 0))\n" + _RT_WITH, "O4.13"),
    V("s6 break: the service time of a sub-request is measured up to the time its record is built", "break", _R, "                    \"service_time\": end - start,\n                }\n",
      "                    \"service_time\": time.perf_counter() - start,\n                }\n", "O4.13"),
    V("s6 break: the service time of a sub-request is the end of its span", "break", _R, "                    \"service_time\": end - start,\n                }\n",
      "                    \"service_time\": end,\n                }\n", "O4.13"),
    V("s6 break: request_start of a sub-request's sample is the end of its request", "break", _R, "                    \"request_start\": start,\n                    \"request_end\": end,\n",
      "                    \"request_start\": end,\n                    \"request_end\": end,\n", "O4.13"),
    V("s6 keep: the issue time of a sub-request is read inside the request context, right before the sub-request is awaited", "keep", _R, _RT_STAMP,
      _RT_HEAD + "        with es[\"default\"].new_request_context() as request_context:\n            absolute_time = time.time()\n            return_value = await self.delegate(es, params)\n"),
    [V("s6 keep: the issue time of a sub-request under another local name, the spans without temporaries", "keep", _R,
       "        absolute_time = time.time()\n        with es[\"default\"].new_request_context() as request_context:\n", "        issued_at = time.time()\n        with es[\"default\"].new_request_context() as request_context:\n"),
     V("", "keep", _R, _RT_ABS, "                    \"absolute_time\": issued_at,\n"),
     V("", "keep", _R, "                    \"service_time\": end - start,\n                }\n", "                    \"service_time\": request_context.request_end - request_context.request_start,\n                }\n")],
]
