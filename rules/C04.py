"""C04 — latency, service time and processing time mean what the docs say (DESIGN.md section 4, C04)."""
from __future__ import annotations

import ast

from sa import pat, source
from sa.cfg import cfg_of, guards
from sa.minieval import CannotEval, Record, ev
from sa.classes import is_logging_stmt
from sa.source import AnchorMissing, arg_of, bind_args, dotted, inline, is_self_attr, last_attr, local_defs, params_of, short, u, walk_body
from sa.sym import comparison, parse_expr, rat_equal


def inline_node(e, defs):
    return source.inline_node(e, defs, no_calls=True)

_D = "esrally/driver/driver.py"
_C = "esrally/client/context.py"
_A = "esrally/client/asynchronous.py"

EXPECTED_FLOW = {  # value of the request loop (label = its name in the frozen source; located by ROLE, see flow_roles)  ->  Sample attribute it must land in
    "self.task": "task",
    "self.client_id": "client_id",
    "sample_type": "sample_type",
    "request_meta_data": "request_meta_data",
    "absolute_processing_start": "absolute_time",
    "request_start": "request_start",
    "latency": "latency",
    "service_time": "service_time",
    "processing_time": "processing_time",
    "throughput": "throughput",
    "total_ops": "total_ops",
    "total_ops_unit": "total_ops_unit",
    "time_period": "time_period",
    "progress": "percent_completed",
    "request_meta_data.pop('dependent_timing', None)": "_dependent_timing",
}


def request_loop(drv):
    ex = drv.cls("AsyncExecutor")
    call = drv.methods(ex).get("__call__")
    if call is None:
        raise AnchorMissing("AsyncExecutor.__call__")
    loops = [n for n in walk_body(call) if isinstance(n, ast.AsyncFor)]
    if not loops:
        raise AnchorMissing("request loop (async for over the schedule)")
    return call, loops[0]


def _root(e, defs):
    """Defining expression of a single-assignment local (pure alias chains `x = y` followed); any other expression is returned as it is."""
    hops = 0
    while isinstance(e, ast.Name) and e.id in defs and hops < 10:
        e = defs[e.id]
        hops += 1
    return e


def unpacked_result(run_call):
    """Names the statement around the runner invocation unpacks the result triple into, by position; None unless it is a plain tuple of names."""
    asg = source.enclosing_stmt(run_call)
    if isinstance(asg, ast.Assign) and len(asg.targets) == 1 and isinstance(asg.targets[0], ast.Tuple) and all(isinstance(x, ast.Name) for x in asg.targets[0].elts):
        return [x.id for x in asg.targets[0].elts]
    return None


def task_start_of(call, L, g, defs):
    """The local holding the task start: the EARLIEST read of the monotonic clock before the request loop (a later pre-loop read - e.g. the schedule start taken after the
    ramp-up wait - is a different role, see schedule_anchor)."""
    cands = [k for k, v in defs.items() if isinstance(v, ast.Call) and dotted(v.func) == "time.perf_counter" and L not in list(source.ancestors(v))]
    if not cands:
        raise AnchorMissing("task start timestamp (perf_counter before the loop)")

    def at(k):
        return g.node_of(defs[k])

    first = [k for k in cands if all(k == o or (g.path_exists(at(k), at(o)) and not g.path_exists(at(o), at(k))) for o in cands)]
    if len(first) != 1:
        raise AnchorMissing(f"task start timestamp: the pre-loop clock reads {sorted(cands)} are not totally ordered")
    return first[0]


# ---- the executor's start-up (everything before the request loop) decided on values ------------------------------------------------------------------------------------------------
# The zero point of the throughput schedule is whatever the loop adds the scheduled time to. Whether that value is a reading of the monotonic clock, and whether it was taken
# before or after the client's ramp-up wait, is decided by running the EXTRACTED start-up statements on a virtual clock (a clock read yields the virtual time, `await
# asyncio.sleep(x)` advances it by x) for representative values of the wait amount; if / conditional-expression tests are evaluated by sa.minieval on those values, a test that
# depends on anything else forks both ways. No repository code is executed. Local helper: sa.minieval has no notion of time or of statements.

_T0 = 5000  # virtual monotonic time at which the executor is entered
_WAITS = (0, 1000)  # representative ramp-up wait amounts: none / a long one


class _Opaque:
    def __repr__(self):
        return "?"


_OPQ = _Opaque()


class _SimUnsupported(Exception):
    pass


class _St:
    """one abstract path through the start-up code: values of the locals, virtual time, end of the ramp-up wait (None: this path did not wait)"""

    def __init__(self, env=None, t=_T0, wait_end=None, wait_from=None, unknown_wait=False):
        self.env, self.t, self.wait_end, self.wait_from, self.unknown_wait = dict(env or {}), t, wait_end, wait_from, unknown_wait

    def copy(self):
        return _St(self.env, self.t, self.wait_end, self.wait_from, self.unknown_wait)

    def plain(self):
        return {k: v for k, v in self.env.items() if v is not _OPQ}


def _is_sleep(n):
    return isinstance(n, ast.Await) and isinstance(n.value, ast.Call) and dotted(n.value.func) == "asyncio.sleep"


def _is_clock(n):
    return isinstance(n, ast.Call) and dotted(n.func) == "time.perf_counter" and not n.args and not n.keywords


class _Sim:
    def __init__(self, L, roots, w):
        self.L, self.roots, self.w, self.reached = L, set(roots), w, []

    # -- expressions
    def bound(self, e, st):
        """copy of e in which the wait amount (by its defining expression) and clock reads are replaced by their values on this path"""
        sim = self

        class T(ast.NodeTransformer):
            def visit(self, n):
                if isinstance(n, ast.expr) and u(n) in sim.roots:
                    return ast.Constant(value=sim.w)
                if _is_clock(n):
                    return ast.Constant(value=st.t)
                return self.generic_visit(n)

        return T().visit(source.clone(e))

    def val(self, e, st):
        try:
            v = ev(self.bound(e, st), st.plain())
        except (CannotEval, TypeError, ValueError, KeyError, AttributeError):
            return _OPQ
        return v

    def truth(self, e, st):
        v = self.val(e, st)
        return None if v is _OPQ else bool(v)

    def vals(self, e, st):
        """[(value, state)]: a conditional expression whose test cannot be decided forks"""
        if isinstance(e, ast.IfExp):
            t = self.truth(e.test, st)
            out = []
            if t is not False:
                out += self.vals(e.body, st if t else st.copy())
            if t is not True:
                out += self.vals(e.orelse, st if t is False else st.copy())
            return out
        return [(self.val(e, st), st)]

    # -- statements
    def block(self, stmts, states):
        for s in stmts:
            nxt = []
            for st in states:
                nxt += self.stmt(s, st)
            states = nxt
            if len(states) + len(self.reached) > 64:
                raise _SimUnsupported("more than 64 paths through the executor's start-up code")
            if not states:
                break
        return states

    def _forget(self, s, st):
        for n in ast.walk(s):
            if isinstance(n, ast.Name) and isinstance(n.ctx, ast.Store):
                st.env[n.id] = _OPQ
            if _is_sleep(n):
                st.unknown_wait = True

    def stmt(self, s, st):
        if s is self.L:
            self.reached.append(st)
            return []
        if isinstance(s, ast.Assign):
            if len(s.targets) == 1 and isinstance(s.targets[0], ast.Name):
                out = []
                for v, st2 in self.vals(s.value, st):
                    st2.env[s.targets[0].id] = v
                    out.append(st2)
                return out
            for t in s.targets:
                self._forget(t, st)
            return [st]
        if isinstance(s, (ast.AugAssign, ast.AnnAssign)):
            self._forget(s.target, st)
            return [st]
        if isinstance(s, ast.Expr):
            if _is_sleep(s.value):
                a = self.val(s.value.value.args[0], st) if s.value.value.args else _OPQ
                if isinstance(a, (int, float)) and not isinstance(a, bool):
                    if a > 0:
                        st.wait_from = st.t
                        st.t += a
                        st.wait_end = st.t
                else:
                    st.unknown_wait = True
            return [st]
        if isinstance(s, ast.If):
            t = self.truth(s.test, st)
            out = []
            if t is not False:
                out += self.block(s.body, [st if t else st.copy()])
            if t is not True:
                out += self.block(s.orelse, [st if t is False else st.copy()])
            return out
        if isinstance(s, ast.Try):
            out = self.block(s.body, [st])  # exceptional paths never enter the request loop afterwards
            out = self.block(s.orelse, out) if s.orelse else out
            return self.block(s.finalbody, out) if s.finalbody else out
        if isinstance(s, (ast.With, ast.AsyncWith)):
            for i in s.items:
                if i.optional_vars is not None:
                    self._forget(i.optional_vars, st)
            return self.block(s.body, [st])
        if isinstance(s, (ast.Return, ast.Raise, ast.Break, ast.Continue)):
            return []
        if isinstance(s, (ast.For, ast.AsyncFor, ast.While, ast.Match)):
            if any(n is self.L for n in ast.walk(s)):
                raise _SimUnsupported(f"the request loop is nested in another compound statement (line {s.lineno})")
            self._forget(s, st)
            return [st]
        return [st]  # def / class / import / pass / assert / global / delete: no effect on the values decided here


def startup_paths(call, L, roots, w):
    """abstract paths of the executor from its entry to the request loop for the wait amount w (see _Sim)"""
    sim = _Sim(L, roots, w)
    sim.block(call.body, [_St()])
    return sim.reached


def schedule_zero(body, st, ctxvar, sched):
    """value of the schedule's zero point on the start-up path st: request_end - scheduled - <throttled latency> (evaluated with scheduled = 0); None if it cannot be evaluated"""
    R = 10 ** 7
    env = st.plain()
    env[ctxvar] = Record(request_end=R, request_start=R - 1)
    env[sched] = 0
    try:
        v = ev(body, env)
    except (CannotEval, TypeError, ValueError, KeyError, AttributeError):
        return None
    return R - v if isinstance(v, (int, float)) and not isinstance(v, bool) else None


def pre_loop_waits(call, L, g):
    """the client's ramp-up wait by role: `await asyncio.sleep(..)` executed before the request loop is entered"""
    Lh = g.node_of(L)
    return [n for n in walk_body(call) if _is_sleep(n) and not any(a is L for a in source.ancestors(n)) and g.path_exists(g.node_of(n), Lh)]


def schedule_zero_cases(call, L, g, defs, lat_body, ctxvar, sched):
    """(ramp-up waits, [(wait amount, start-up path, value of the schedule's zero point on it or None)]) - see _Sim / schedule_zero"""
    waits = pre_loop_waits(call, L, g)
    roots = {u(_root(w.value.args[0], defs)) for w in waits if w.value.args}  # the wait amount, named by its defining expression (alias chains followed)
    ldefs = {k: v for k, v in defs.items() if any(a is L for a in source.ancestors(v))}  # temporaries of the loop body are folded, start-up locals are looked up on the path
    body = inline_node(lat_body, ldefs)
    out = []
    for w in _WAITS:
        for st in startup_paths(call, L, roots, w):
            out.append((w, st, schedule_zero(body, st, ctxvar, sched)))
    return waits, out


def schedule_zero_is_clock_reading(call, L, g, defs, lat_body, ctxvar, sched):
    """(ok, detail): the throttled latency is request_end - (Z + scheduled) for a loop-invariant Z (symbolic: rational normal form), and Z evaluates to a reading of the monotonic
    clock taken between the executor's entry and the loop entry on every start-up path that can be evaluated (paths that cannot are O4.7's business)."""
    from fractions import Fraction

    from sa.sym import NotRational, ratfun

    if ctxvar is None or lat_body is None:
        return False, ""
    try:
        z = ratfun(ast.BinOp(left=parse_expr(f"{ctxvar}.request_end - {sched}"), op=ast.Sub(), right=inline_node(lat_body, defs)))
    except NotRational as e:
        return False, f"not an arithmetic formula: {e}"
    per_request = {n.id for n in ast.walk(L) if isinstance(n, ast.Name) and isinstance(n.ctx, ast.Store)} | {ctxvar, sched}

    def varies(atom):
        try:
            t = parse_expr(atom)
        except SyntaxError:
            return True
        return any(isinstance(n, (ast.Call, ast.Await)) or (isinstance(n, ast.Name) and n.id in per_request) for n in ast.walk(t))

    if z.den != {(): Fraction(1)} or not z.num or any(varies(a) for a in z.atoms()):
        return False, f"request_end - scheduled - latency = {z!r}: not a zero point that is the same for every request of the client"
    try:
        _, cases = schedule_zero_cases(call, L, g, defs, lat_body, ctxvar, sched)
    except _SimUnsupported:
        return True, ""
    for w, st, zero in cases:
        if zero is not None and not _T0 <= zero <= st.t:
            return False, (f"with a ramp-up wait of {w} the schedule's zero point evaluates to {zero:g} on a virtual monotonic clock that shows {_T0} at the executor's entry and "
                           f"{st.t:g} when the request loop is entered: not a reading of that clock taken while the client starts")
    return True, ""


def schedule_start_rule(chk, rid, call, L, g, defs, lat_body, ctxvar, sched):
    """F40 (rally 249cfef): the zero point of the client's throughput schedule is not earlier than the end of its ramp-up wait. Anchored before the wait, a client that rally
    itself held back for W seconds finds every request scheduled within W overdue, issues them back-to-back and reports latencies of up to W although it was never behind.
    The zero point is located by role (what the throttled latency adds to the scheduled time; O4.3 ties the sleep-until to the same T), the wait is the sleep before the loop,
    the verdict is decided on values (virtual clock, wait amounts _WAITS). time_period may keep the earlier task start."""
    chk.rule(rid, "the zero point of the throughput schedule (the Z of the throttled latency request_end - (Z + scheduled) and of the sleep-until) is a reading of the monotonic clock "
             "that is not earlier than the end of the client's ramp-up wait", 2,
             "a client delayed by ramp-up treats all requests scheduled within its delay as overdue: they are issued back-to-back (target throughput exceeded) and each reports "
             "a latency that contains the ramp-up delay although the client was never behind schedule")
    if lat_body is None or ctxvar is None:
        raise AnchorMissing("throttled latency formula (conditional expression handed to sampler.add as latency)")
    waits = pre_loop_waits(call, L, g)
    if not waits:
        raise AnchorMissing("ramp-up wait: `await asyncio.sleep(..)` before the request loop of AsyncExecutor.__call__")
    try:
        _, cases = schedule_zero_cases(call, L, g, defs, lat_body, ctxvar, sched)
    except _SimUnsupported as e:
        chk.unknown(rid, f"start-up of AsyncExecutor.__call__ cannot be walked on the virtual clock: {e}", waits[0])
        return
    for w in _WAITS:
        mine = [(st, z) for w_, st, z in cases if w_ == w]
        if not mine:
            raise AnchorMissing(f"no start-up path of AsyncExecutor.__call__ reaches the request loop with a ramp-up wait of {w}")
        if any(z is None or st.unknown_wait for st, z in mine):
            chk.unknown(rid, f"the schedule's zero point (or the length of the ramp-up wait) cannot be evaluated on the virtual clock for a wait amount of {w}", waits[0])
            continue
        if w > 0:
            waited = [(st, z) for st, z in mine if st.wait_end is not None]
            if not waited:
                chk.unknown(rid, f"no start-up path waits although the ramp-up wait amount is {w}", waits[0])
                continue
            bad = [(st, z) for st, z in waited if z < st.wait_end]
            st, z = (bad or waited)[0]
            chk.ob(rid, "client delayed by ramp-up: the schedule's zero point is not earlier than the end of the ramp-up wait", not bad, waits[0],
                   f"virtual monotonic clock: executor entered at {_T0}, ramp-up wait {st.wait_from:g} -> {st.wait_end:g}, request loop entered at {st.t:g}, schedule zero point {z:g}"
                   + ("" if not bad else f" - {st.wait_end - z:g} before the client may start: every request scheduled within that span is overdue at once and its latency contains the wait"),
                   key=f"{_D}:AsyncExecutor.__call__:schedule-zero:not-before-end-of-ramp-up-wait")
        else:
            bad = [(st, z) for st, z in mine if not _T0 <= z <= st.t]
            st, z = (bad or mine)[0]
            chk.ob(rid, "client without ramp-up delay: the schedule's zero point is a clock reading taken while the client starts", not bad, waits[0],
                   f"virtual monotonic clock: executor entered at {_T0}, request loop entered at {st.t:g}, schedule zero point {z:g}",
                   key=f"{_D}:AsyncExecutor.__call__:schedule-zero:clock-reading-at-start")


def _ends_request(c):
    """a call that records `now` as the end of the current request context"""
    if not isinstance(c, ast.Call):
        return False
    if last_attr(c.func) == "on_request_end":
        return True
    return last_attr(c.func) == "update_request_end" and len(c.args) == 1 and _is_clock(c.args[0])


def _catches_exception(try_):
    """the try has a handler that takes every Exception (bare / BaseException / Exception, also inside a tuple)"""
    for h in getattr(try_, "handlers", []):
        ts = [None] if h.type is None else (h.type.elts if isinstance(h.type, ast.Tuple) else [h.type])
        if any(t is None or last_attr(t) in ("BaseException", "Exception") for t in ts):
            return True
    return False


def frame_ends_failed_request(f):
    """(protected, swallowed, detail) for one frame `perform_request` of the async client's call chain: protected = every exceptional exit of each awaited delegate
    `….perform_request(..)` passes a call that records the end of the request (the call itself may fail - a missing context - and be tolerated) before the exception leaves the
    frame; only non-Exception BaseExceptions (cancellation of the client, no request outcome) may leave unrecorded; swallowed = a failure can reach the frame's normal exit."""
    g = cfg_of(f)
    delegates = [n.value for n in walk_body(f) if isinstance(n, ast.Await) and isinstance(n.value, ast.Call) and last_attr(n.value.func) == "perform_request"]
    if not delegates:
        return False, False, "no awaited delegate perform_request call"
    ends = [g.node_of(c) for c in walk_body(f) if _ends_request(c)]
    # a `with <guard>:` block around the recording call (contextlib.suppress for the missing context) is entered in order to record: entering it counts as the attempt
    # (only if the call is an unconditional statement of the block that nothing fallible precedes)
    from sa.cfg import may_raise

    def records_first(w):
        for s_ in w.body:
            if isinstance(s_, ast.Expr) and _ends_request(s_.value):
                return True
            if may_raise(s_):
                return False
        return False

    ends += [n_ for w in walk_body(f) if isinstance(w, (ast.With, ast.AsyncWith)) and records_first(w) for n_ in g.by_ast.get(id(w), []) if n_.kind == "with"]
    protected, swallowed, detail = True, False, ""
    for d in delegates:
        dn = g.node_of(d)
        for y, lab in g.succ[dn.id]:
            if g.normal_edge(dn.id, y, lab):
                continue
            s = g.nodes[y]
            if s is g.raise_exit:
                # leaves the frame at once: tolerable only for what an `except Exception` around the delegate does not take (CancelledError & co: the client is torn down)
                tr = [a for a in source.ancestors(d) if isinstance(a, ast.Try) and any(d is y_ for x in a.body for y_ in ast.walk(x))]
                if not any(_catches_exception(t) for t in tr):
                    protected, detail = False, "a failure of the delegate leaves the frame without passing any handler"
                continue
            if not g.must_pass(s, ends, exits=[g.exit, g.raise_exit]):
                protected = False
                p_ = g.find_path(s, g.raise_exit, avoid=ends) or g.find_path(s, g.exit, avoid=ends)
                detail = "a failure leaves through " + " ".join(g.describe_path(p_)) if p_ else "a failure leaves without recording the request end"
            if g.exit.id in g.reachable([s]):
                swallowed = True
    return protected, swallowed, detail


def failed_request_end_rule(chk, rid, repo):
    """F39 (rally 09d2ce8): service time spans until the response - or the FAILURE - of the request. aiohttp signals on_request_exception only until the response headers have
    arrived; elastic_transport reads the body afterwards, so a timeout / disconnect during that read reaches no trace hook and the request context keeps the time of the last
    chunk (service time = time to first byte, the wait is booked as client overhead). Hence some frame of the async client's own call chain (node class handed to the transport,
    transport subclass, client) must record the end of the request on every exceptional exit of its delegate call and let the failure propagate."""
    am = repo.module(_A)
    chk.use(am)
    chk.rule(rid, "a wire request of the async client that fails - also after its response headers arrived - ends when it fails: the client's perform_request chain records the "
             "request end on every exceptional exit and re-raises; the transport is built with that node class", 3,
             "a request that times out / is disconnected while its body is read is recorded with the time to its first byte as service time and latency (on-error=continue), "
             "the time the client kept waiting is booked as client-side overhead")
    node_cls = [c for c in am.classes() if any(last_attr(b) == "AiohttpHttpNode" for b in c.bases)]
    if len(node_cls) != 1:
        raise AnchorMissing(f"{_A}: the node class of the async client (the one subclass of elastic_transport's AiohttpHttpNode), found {len(node_cls)}")
    nc = node_cls[0]
    chain = [nc] + [c for c in am.classes() if any(last_attr(b) in ("AsyncTransport", "AsyncElasticsearch") for b in c.bases)]
    frames = [(c, am.methods(c)["perform_request"]) for c in chain if "perform_request" in am.methods(c)]
    verdicts = [(c, f, *frame_ends_failed_request(f)) for c, f in frames]
    good = [v for v in verdicts if v[2]]
    nf = am.methods(nc).get("perform_request")
    site = good[0][1] if good else (nf if nf is not None else nc)
    if good:
        detail = f"{good[0][0].name}.perform_request records the end on every exceptional exit of its delegate call"
    elif nf is None:
        detail = (f"{nc.name} does not override perform_request and no other frame of the chain ({', '.join(c.name for c, _ in frames) or 'none'}) records the end of a failed "
                  "request: elastic_transport reads the response body after aiohttp's last exception signal, a failure there stops no timer")
    else:
        detail = "; ".join(f"{c.name}.perform_request: {d}" for c, _, ok_, _, d in verdicts if not ok_)
    chk.ob(rid, "every exceptional exit of a wire request records the request end (node-level perform_request or a frame above it)", bool(good), site, detail,
           key=f"{_A}:{nc.name}.perform_request:request-end-on-every-exceptional-exit")
    sw = [v for v in verdicts if v[3]]
    chk.ob(rid, "the failure of the wire request still propagates (recorded, not swallowed)", not sw, sw[0][1] if sw else site,
           "" if not sw else f"{sw[0][0].name}.perform_request: a path from the failed delegate call reaches the normal exit",
           key=f"{_A}:{nc.name}.perform_request:failure-propagates")
    uses = [k for n in ast.walk(am.tree) if isinstance(n, ast.Call) for k in n.keywords if k.arg == "node_class"]
    ok = bool(uses) and all(isinstance(k.value, ast.Name) and k.value.id == nc.name for k in uses)
    chk.ob(rid, "the async transport is built with this node class", ok, uses[0].value if uses else nc, f"node_class = {[u(k.value) for k in uses] or 'not set'}",
           key=f"{_A}:{nc.name}:node-class-of-the-async-transport")


def flow_roles(L, defs, ctxvar, total_start, res):
    """label of EXPECTED_FLOW -> predicate deciding whether an argument expression of the loop's sampler.add call IS that value. The value is recognised by data flow only:
    its position in the schedule tuple / in the unpacked runner result, the clock read defining it, its formula over the request context, the key popped from the meta data,
    the schedule value assigned to it. Local variable names play no role (the labels are the names in the frozen source and only serve as stable obligation keys)."""
    lt = [x.id if isinstance(x, ast.Name) else None for x in (L.target.elts if isinstance(L.target, ast.Tuple) else [])] + [None] * 3
    ops, unit, meta = (list(res or []) + [None] * 3)[:3]

    def inl(a):
        return inline_node(a, defs)

    def is_name(a, nm):
        e = inl(a)
        return nm is not None and isinstance(e, ast.Name) and e.id == nm

    def clock(a, fn):  # a local assigned inside the loop from one read of the clock `fn`
        d = _root(a, defs)
        return isinstance(a, ast.Name) and isinstance(d, ast.Call) and dotted(d.func) == fn and L in list(source.ancestors(d))

    def formula(a, text):
        return ctxvar is not None and total_start is not None and rat_equal(inl(a), parse_expr(text))

    def popped(a, key):  # <meta>.pop(key, None), directly or through a single-assignment local
        return meta is not None and pat.is_(_root(a, defs), f"V_m.pop('{key}', None)", binds={"m": meta})

    def assigned_from(a, src):  # the local of the loop that receives the schedule's value `src` on some path
        return src is not None and isinstance(a, ast.Name) and any(
            isinstance(n, ast.Assign) and isinstance(n.value, ast.Name) and n.value.id == src and any(isinstance(t, ast.Name) and t.id == a.id for t in n.targets) for n in ast.walk(L))

    def clock_span(a):
        e = inl(a)
        return isinstance(e, ast.BinOp) and isinstance(e.op, ast.Sub) and clock(e.left, "time.perf_counter") and clock(e.right, "time.perf_counter")

    return {
        "self.task": lambda a: u(a) == "self.task",
        "self.client_id": lambda a: u(a) == "self.client_id",
        "sample_type": lambda a: is_name(a, lt[1]),  # second element of the schedule tuple
        "request_meta_data": lambda a: is_name(a, meta),  # third element of the runner's result
        "absolute_processing_start": lambda a: clock(a, "time.time"),  # the wall-clock stamp
        "request_start": lambda a: ctxvar is not None and u(inl(a)) == f"{ctxvar}.request_start",
        "latency": lambda a: isinstance(inl(a), ast.IfExp),  # the one value that depends on being throttled (its formula is O4.1's business)
        "service_time": lambda a: formula(a, f"{ctxvar}.request_end - {ctxvar}.request_start"),
        "processing_time": clock_span,  # difference of two monotonic clock reads of this iteration
        "throughput": lambda a: popped(a, "throughput"),
        "total_ops": lambda a: is_name(a, ops),  # first element of the runner's result
        "total_ops_unit": lambda a: is_name(a, unit),  # second element of the runner's result
        "time_period": lambda a: formula(a, f"{ctxvar}.request_end - {total_start}"),
        "progress": lambda a: assigned_from(a, lt[2]),  # receives the schedule's percent-completed (third element of the schedule tuple)
        "request_meta_data.pop('dependent_timing', None)": lambda a: popped(a, "dependent_timing"),
    }


def run(chk):
    repo = chk.repo
    drv, ctx = repo.module(_D), repo.module(_C)
    chk.use(drv, ctx, "docs/metrics.rst")
    chk.explanation = (
        "Decides the timing formulas and their program order in the request loop against the definitions in docs/metrics.rst: service_time = request_end - request_start "
        "of the request's own context; processing_time = processing_end - processing_start bracketing that context; latency = request_end - (schedule start + scheduled time) iff "
        "throttled (scheduled > 0), else service_time; the sleep-until idiom on the same scheduled time precedes the request; the issue time stamp is taken after the wait; "
        "exactly one sampler.add per request on every normal path; positional field flow loop -> Sampler.add -> Sample attributes; uniform error result and abort condition; "
        "the zero point of the throughput schedule (what the throttled latency adds to the scheduled time) is a clock reading not earlier than the end of the client's "
        "ramp-up wait, decided by walking the extracted start-up statements on a virtual clock (O4.7); a wire request of the async client that fails at any stage has its end "
        "recorded on every exceptional exit of the client's perform_request chain (O4.8)."
    )
    chk.not_decided = "numeric non-negativity (clock behaviour), growth of latency while behind schedule as a number, behaviour of third-party trace callbacks."
    doc = repo.text("docs/metrics.rst")
    chk.rule("O4.0", "docs/metrics.rst still defines latency, service_time and processing_time as encoded in the formula table", 3, "the oracle moved")
    for key, phrase in (("latency", "``latency``: Time period between submission of a request and receiving the complete response"),
                        ("service_time", "``service_time`` Time period between sending a request and receiving the corresponding response"),
                        ("processing_time", "``processing_time`` Time period between start of request processing and receiving the complete response")):
        found = phrase in doc
        if not found:
            # tolerate re-wording: the three metric names must at least be documented
            found = f"``{key}``" in doc
            chk.adv("O4.0", f"wording of the {key} definition in docs/metrics.rst changed; formulas are still checked against the frozen definition", None)
        chk.ob("O4.0", f"{key} documented", found, "docs/metrics.rst", "")

    call, L = request_loop(drv)
    g = cfg_of(call)
    defs = local_defs(call)
    Lh = g.node_of(L)
    sched = L.target.elts[0].id if isinstance(L.target, ast.Tuple) else None
    if sched is None:
        raise AnchorMissing("schedule tuple target of the request loop")
    withs = [n for n in ast.walk(L) if isinstance(n, ast.With) and any("new_request_context" in u(i.context_expr) for i in n.items)]
    if not withs:
        raise AnchorMissing("request context `with ... new_request_context()` in the request loop")
    Wn = withs[0]
    ctxvar = Wn.items[0].optional_vars.id if isinstance(Wn.items[0].optional_vars, ast.Name) else None
    runs = [n for n in ast.walk(L) if isinstance(n, ast.Call) and last_attr(n.func) == "execute_single"]
    if not runs:
        raise AnchorMissing("runner invocation (execute_single) in the request loop")
    adds = [n for n in ast.walk(L) if isinstance(n, ast.Call) and u(n.func) == "self.sampler.add"]
    if not adds:
        raise AnchorMissing("self.sampler.add(...) in the request loop")
    addc = adds[0]
    total_start = task_start_of(call, L, g, defs)  # anchors time_period; the schedule's zero point is a role of its own (see the throttled latency below and O4.7)

    def arg_named(param):
        samp = drv.methods(drv.cls("Sampler"))["add"]
        return bind_args(addc, samp).get(param)

    # ---- O4.1 formulas ---------------------------------------------------------------------------------------------------------------
    chk.rule("O4.1", "service_time == request_end - request_start (same request context); processing_time == processing_end - processing_start; "
             "latency == request_end - (schedule start + scheduled) if throttled else service_time; throttled == scheduled > 0", 5,
             "every request of a throttled (latency) / any (service, processing) task reports a different span than documented")
    st = arg_named("service_time")
    ok = False
    detail = ""
    if st is not None:
        e = inline_node(st, defs)
        ok = ctxvar is not None and rat_equal(e, parse_expr(f"{ctxvar}.request_end - {ctxvar}.request_start"))
        detail = f"service_time = {u(e)}"
    chk.ob("O4.1", "service_time = ctx.request_end - ctx.request_start", ok, st if st is not None else addc, detail)
    pt = arg_named("processing_time")
    ok = False
    pend = pstart = None
    if pt is not None:
        e = inline_node(pt, defs)  # clock reads stay opaque names (no_calls), pure temporaries are folded
        ok = isinstance(e, ast.BinOp) and isinstance(e.op, ast.Sub) and isinstance(e.left, ast.Name) and isinstance(e.right, ast.Name) \
            and e.left.id in defs and e.right.id in defs and dotted(getattr(defs[e.left.id], "func", None) or ast.Name(id="")) == "time.perf_counter" \
            and dotted(getattr(defs[e.right.id], "func", None) or ast.Name(id="")) == "time.perf_counter"
        pend, pstart = (e.left.id, e.right.id) if ok else (None, None)
        detail = f"processing_time = {u(e)}"
    chk.ob("O4.1", "processing_time = processing_end - processing_start (both perf_counter)", ok, pt if pt is not None else addc, detail)
    lat = arg_named("latency")
    ok_t = ok_b = ok_e = False
    thr_expr = lat_body = None
    zdetail = ""

    def is_throttle_test(e):  # scheduled > 0, in either orientation (e already inlined)
        return pat.is_(e, "V_s > 0", binds={"s": sched})

    if lat is not None:
        le = _root(lat, defs)
        if isinstance(le, ast.IfExp):
            thr_expr = inline_node(le.test, defs)
            ok_t = is_throttle_test(thr_expr)
            # request_end - (Z + scheduled) for SOME loop-invariant Z that is a reading of the monotonic clock taken while the client started up (the schedule's zero point, by
            # role: whatever the formula adds to the scheduled time; before the ramp-up repair that was the task start, now it is a reading taken after the ramp-up wait - O4.7)
            lat_body = le.body
            ok_b, zdetail = schedule_zero_is_clock_reading(call, L, g, defs, lat_body, ctxvar, sched)
            ok_e = st is not None and (u(inline_node(le.orelse, defs)) == u(inline_node(st, defs)) or rat_equal(inline_node(le.orelse, defs), inline_node(st, defs)))
            detail = f"latency = {u(inline_node(le.body, defs))} if {u(thr_expr)} else {u(inline_node(le.orelse, defs))}" + (f" [{zdetail}]" if zdetail else "")
        else:
            detail = f"latency is not a conditional expression: {u(le) if le is not None else None}"
    chk.ob("O4.1", "throttled == (scheduled time > 0)", ok_t, lat if lat is not None else addc, detail)
    chk.ob("O4.1", "throttled latency = request_end - (schedule start + scheduled time)", ok_b, lat if lat is not None else addc, detail)
    chk.ob("O4.1", "unthrottled latency = service_time", ok_e, lat if lat is not None else addc, detail)
    rs = arg_named("request_start")
    ok = rs is not None and ctxvar is not None and u(inline_node(rs, defs)) == f"{ctxvar}.request_start"
    chk.ob("O4.1", "sample's request_start is the context's request_start", ok, rs if rs is not None else addc, "")
    tp = arg_named("time_period")
    ok = tp is not None and ctxvar is not None and rat_equal(inline_node(tp, defs), parse_expr(f"{ctxvar}.request_end - {total_start}"))
    chk.ob("O4.1", "time_period = request_end - task start", ok, tp if tp is not None else addc, "")

    # the request context's start/end are the earliest send / latest response of all wire requests (shared with C18/O18.1)
    from rules.C18 import merge_kind

    chh = ctx.cls("RequestContextHolder")
    for upd, key_, want_ in (("update_request_start", "request_start", "min"), ("update_request_end", "request_end", "max")):
        f_ = ctx.methods(chh).get(upd)
        if f_ is None:
            raise AnchorMissing(f"RequestContextHolder.{upd}")
        kind_, none_safe_, st_ = merge_kind(f_, key_)
        chk.ob("O4.1", f"context {key_} is the {'earliest send' if want_ == 'min' else 'latest response'} of all wire requests ({want_} merge)", kind_ == want_, st_ if st_ is not None else f_,
               f"operator: {kind_}" + ("" if kind_ == want_ else " — an operation issuing several requests (scroll pages, retries, composite) reports only part of its span as service time"),
               key=f"{_C}:{upd}:merge:{key_}")

    # ---- O4.2 containment by program order --------------------------------------------------------------------------------------------------
    chk.rule("O4.2", "processing_start is taken before entering the request context, processing_end after leaving it, the runner is invoked inside it; "
             "all four timestamps come from the same monotonic clock; the issue time stamp is taken after the throttle wait", 5,
             "processing_time < service_time for some request, or samples stamped with the time the wait began")
    wn = g.node_of(Wn)
    ok = all(Wn in list(source.ancestors(r)) for r in runs)
    chk.ob("O4.2", "runner invoked inside the request context", ok, runs[0], "")
    if pt is not None and pstart is not None and pend is not None:
        ps_node = [n for n in ast.walk(L) if isinstance(n, ast.Assign) and isinstance(n.targets[0], ast.Name) and n.targets[0].id == pstart]
        pe_node = [n for n in ast.walk(L) if isinstance(n, ast.Assign) and isinstance(n.targets[0], ast.Name) and n.targets[0].id == pend]
        ok = bool(ps_node) and Wn not in list(source.ancestors(ps_node[0])) and g.dominated_by_nodes(wn, [g.node_of(ps_node[0])]) and not g.path_exists(wn, g.node_of(ps_node[0]), avoid=[Lh])
        chk.ob("O4.2", "processing_start before the context", ok, ps_node[0] if ps_node else L, "")
        ok = bool(pe_node) and Wn not in list(source.ancestors(pe_node[0])) and g.dominated_by_nodes(g.node_of(pe_node[0]), [wn]) and not g.path_exists(g.node_of(pe_node[0]), wn, avoid=[Lh])
        chk.ob("O4.2", "processing_end after the context", ok, pe_node[0] if pe_node else L, "")
        # no await between processing_start and the context entry other than nothing
        sleeps = [n for n in ast.walk(L) if isinstance(n, ast.Await) and "sleep" in u(n)]
        ok = bool(ps_node) and not any(g.path_exists(g.node_of(ps_node[0]), g.node_of(s), avoid=[Lh]) and g.path_exists(g.node_of(s), wn, avoid=[Lh]) for s in sleeps)
        chk.ob("O4.2", "no wait between processing_start and the request", ok, ps_node[0] if ps_node else L, "")
    else:
        chk.ob("O4.2", "processing interval anchors", False, addc, "processing_start / processing_end could not be identified")
    ch = ctx.cls("RequestContextHolder")
    cm = ctx.methods(ch)
    for nm in ("on_request_start", "on_request_end"):
        f = cm.get(nm)
        ok = f is not None and any(isinstance(n, ast.Call) and dotted(n.func) == "time.perf_counter" for n in walk_body(f)) and not any(
            isinstance(n, ast.Call) and dotted(n.func) in ("time.time", "time.monotonic") for n in walk_body(f))
        chk.ob("O4.2", f"{nm} uses the same monotonic clock (perf_counter)", ok, f if f is not None else ch, "")
    trace_hook_table(chk, "O4.2", repo)
    from rules.C18 import propagation_guard_rule

    propagation_guard_rule(chk, "O4.2", ctx)
    at = arg_named("absolute_time")
    ok = False
    if at is not None and isinstance(at, ast.Name) and at.id in defs:
        an = [n for n in ast.walk(L) if isinstance(n, ast.Assign) and isinstance(n.targets[0], ast.Name) and n.targets[0].id == at.id]
        sleeps = [n for n in ast.walk(L) if isinstance(n, ast.Await) and "sleep" in u(n)]
        ok = bool(an) and isinstance(defs[at.id], ast.Call) and dotted(defs[at.id].func) == "time.time" and g.dominated_by_nodes(wn, [g.node_of(an[0])]) and \
            not any(g.path_exists(g.node_of(an[0]), g.node_of(s), avoid=[Lh]) for s in sleeps)
        chk.ob("O4.2", "issue time stamp (wall clock) taken after the throttle wait and before the request", ok, an[0] if an else addc, "" if ok else "the stamp is taken before a wait (or not on every path)")
    else:
        chk.ob("O4.2", "issue time stamp", False, addc, "absolute_time argument is not a single-assignment local")

    # ---- O4.3 no early issue ------------------------------------------------------------------------------------------------------------------------
    chk.rule("O4.3", "when throttled, the sleep-until idiom (rest = T - now(); if rest > 0: await sleep(rest)) on the same T the latency formula subtracts precedes the request on every path", 2,
             "a client ahead of schedule issues its request early: target throughput exceeded and latency negative/understated")
    sleeps = [n for n in ast.walk(L) if isinstance(n, ast.Await) and isinstance(n.value, ast.Call) and dotted(n.value.func) == "asyncio.sleep"]
    ok = False
    detail = "no sleep in the loop"
    for s in sleeps:
        if not s.value.args:
            continue
        argv = s.value.args[0]
        gs = guards(s, stop=L)
        fs = pat.fact_nodes(s, stop=L, path_sensitive=False)  # atomic guard facts of the explicit branches: arm position, `not`, orientation and conjunct order do not matter
        rest_def = defs.get(argv.id) if isinstance(argv, ast.Name) else argv
        # the T of `rest = T - now()` is the very T the throttled latency subtracts from request_end:  rest + latency == request_end - now()   (whatever T's zero point is called)
        T_ok = rest_def is not None and lat_body is not None and ctxvar is not None and rat_equal(
            ast.BinOp(left=inline_node(rest_def, {k: v for k, v in defs.items() if k != u(argv)}), op=ast.Add(), right=inline_node(lat_body, defs)),
            parse_expr(f"{ctxvar}.request_end - time.perf_counter()"))
        pos_guard = [f for f in fs if pat.is_(f, "E_rest > 0", binds={"rest": u(argv)})]
        # the wait is under the very throttle condition the latency formula tests (compared after inlining, so a flag variable or the spelled-out comparison both do)
        thr_guard = [f for f in fs if thr_expr is not None and (u(inline_node(f, defs)) == u(thr_expr) or (is_throttle_test(thr_expr) and is_throttle_test(inline_node(f, defs))))]
        only = len(fs) == 2
        ok = T_ok and bool(pos_guard) and bool(thr_guard) and only
        detail = f"sleep({u(argv)}) with {u(argv)} = {u(rest_def) if rest_def is not None else '?'} under {[(u(t), p) for t, p in gs]}"
        if ok:
            # the throttle `if` is on every path to the request
            top = [a for a in source.ancestors(s) if isinstance(a, ast.If) and source.logical_parent(a) is L and not getattr(a, "_synthetic_arm", None)]
            ok = bool(top) and g.dominated_by_nodes(wn, [g.node_of(top[0])])
            # rest is computed after the time base: `now()` read inside the throttled branch
            break
    chk.ob("O4.3", "sleep-until on the scheduled time precedes the request", ok, sleeps[0] if sleeps else L, detail)
    first = next((s_ for s_ in L.body if not is_logging_stmt(s_)), L.body[0])  # first statement of the iteration, logging aside
    chk.ob("O4.3", "cancellation test precedes waiting", isinstance(first, ast.If) and "cancel.is_set" in u(first.test), first, "")

    # ---- O4.4 one sample per request -----------------------------------------------------------------------------------------------------------------
    chk.rule("O4.4", "on every normal path from the runner invocation to the next iteration or loop exit exactly one sampler.add call is passed", 3,
             "requests without a sample (lost) or with two samples (double counted)")
    chk.ob("O4.4", "single sampler.add site in the loop", len(adds) == 1, addc, f"{len(adds)} site(s)")
    ok = source.logical_parent(source.enclosing_stmt(addc)) is L and not guards(addc, stop=L) and source.enclosing(addc, (ast.For, ast.While, ast.AsyncFor)) is L
    chk.ob("O4.4", "sampler.add unconditional at loop-body level", ok, addc, f"guards={[(u(t), p) for t, p in guards(addc, stop=L)]}")
    an = g.node_of(addc)
    wx = [n for n in g.by_ast.get(id(Wn), []) if n.kind == "with_exit"]
    after_loop = [g.nodes[y] for (y, lab) in g.succ[Lh.id] if lab == "exhausted"]
    breaks = [g.node_of(b) for b in ast.walk(L) if isinstance(b, ast.Break) and not any(isinstance(a, ast.If) and "cancel.is_set" in u(a.test) for a in source.ancestors(b))]
    ok = bool(wx) and all(Lh.id not in g.reachable([w], avoid=[an], edge_ok=g.normal_edge) for w in wx)
    chk.ob("O4.4", "no path from the finished request to the next iteration bypasses sampler.add", ok, addc, "")
    # a break leaves a request unsampled only if it lies between the request and sampler.add (a break before the request was issued loses nothing)
    lost = [b for b in breaks if any(g.path_exists(w, b, avoid=[an, Lh], edge_ok=g.normal_edge) for w in wx)]
    chk.ob("O4.4", "no break between the finished request and its sample", bool(wx) and not lost, addc, f"{len(breaks)} break(s) in the loop, {len(lost)} between request and sampler.add")
    ok = g.dominated_by_nodes(an, wx) if wx else False
    chk.ob("O4.4", "sample recorded after the request context closed", ok, addc, "")

    # ---- O4.5 field flow ----------------------------------------------------------------------------------------------------------------------------------
    chk.rule("O4.5", "positional/keyword flow loop arguments -> Sampler.add parameters -> Sample(...) arguments -> Sample attributes lands every value in the attribute of its meaning", 15,
             "two same-typed values swapped (latency/service_time, absolute_time/request_start, ...): every record carries the wrong number under the right name")
    samp_add = drv.methods(drv.cls("Sampler"))["add"]
    sample_init = drv.methods(drv.cls("Sample"))["__init__"]
    ctor = [n for n in walk_body(samp_add) if isinstance(n, ast.Call) and last_attr(n.func) == "Sample"]
    if not ctor:
        raise AnchorMissing("Sample(...) construction in Sampler.add")
    b1 = bind_args(addc, samp_add)  # add param -> loop expr
    b2 = bind_args(ctor[0], sample_init)  # Sample param -> expr in add
    attr_of_param = {}
    for n in walk_body(sample_init):
        if isinstance(n, ast.Assign) and len(n.targets) == 1 and is_self_attr(n.targets[0]) and isinstance(n.value, ast.Name):
            attr_of_param[n.value.id] = n.targets[0].attr
    attr_of_add_param = {}  # Sampler.add parameter -> Sample attribute (through the Sample(...) construction)
    for sp, e in b2.items():
        if isinstance(e, ast.Name) and e.id in b1:
            attr_of_add_param[e.id] = attr_of_param.get(sp)
    roles = flow_roles(L, defs, ctxvar, total_start, unpacked_result(runs[0]))
    for src_expr, want in EXPECTED_FLOW.items():
        hits = [p for p, a in b1.items() if roles[src_expr](a)]  # parameters of Sampler.add that receive the value with this role
        got = sorted({str(attr_of_add_param.get(p)) for p in hits})
        chk.ob("O4.5", f"{src_expr} -> Sample.{want}", got == [want], addc, f"lands in Sample.{', '.join(got) if got else None}" + ("" if hits else " (no argument of sampler.add carries this value)"),
               key=f"{_D}:flow:{src_expr}->{want}")
    ts = b2.get("task_start")
    from rules.C01 import executor_wiring

    executor_wiring(chk, "O4.5", drv)
    from rules.C07 import drain_before_drive_rule

    drain_before_drive_rule(chk, "O4.4", drv)
    chk.ob("O4.5", "task_start := sampler start timestamp", ts is not None and u(ts) == "self.start_timestamp", ctor[0], "")

    check_execute_single(chk, drv, "O4.6", runs)

    pending = None
    try:
        schedule_start_rule(chk, "O4.7", call, L, g, defs, lat_body, ctxvar, sched)
    except AnchorMissing as e:  # a role of O4.7 that cannot be located must not keep O4.8 from being evaluated
        pending = e
    failed_request_end_rule(chk, "O4.8", repo)
    if pending is not None:
        raise pending


def trace_hook_table(chk, rid, repo):
    """The trace-signal table is owned by rules/C18.py since F39 (there the row of aiohttp's exception signal holds iff a failed wire request's end is recorded unconditionally by
    at least one of the exception trace hook and the node-level perform_request handler - the latter is also O4.8 here). Same signature, same five instances, same keys. The
    former local definition is kept as a fall-back for a tree in which rules/C18.py does not define the table itself."""
    import rules.C18 as _c18

    shared = getattr(_c18, "trace_hook_table", None)
    if shared is not None and getattr(shared, "__module__", "") == "rules.C18":
        return shared(chk, rid, repo)
    return _trace_hook_table_local(chk, rid, repo)


def _trace_hook_table_local(chk, rid, repo):
    from sa.classes import is_logging_stmt

    """The aiohttp trace signals that start / stop the service-time clock (shared with C18): the start callback is registered for request start only; the stop
    callback for every response chunk (so the LAST chunk counts), for request end and for request exception; no request-side signal stops the clock."""
    fac = repo.module("esrally/client/factory.py")
    chk.use(fac)
    f = fac.methods(fac.cls("EsClientFactory")).get("create_async")
    if f is None:
        raise AnchorMissing("EsClientFactory.create_async")
    tc = [n for n in walk_body(f) if isinstance(n, ast.Assign) and isinstance(n.value, ast.Call) and last_attr(n.value.func) == "TraceConfig" and isinstance(n.targets[0], ast.Name)]
    if not tc:
        raise AnchorMissing("aiohttp.TraceConfig() in create_async")
    tv = tc[0].targets[0].id
    role = {}
    for d in walk_body(f):
        if isinstance(d, (ast.AsyncFunctionDef, ast.FunctionDef)):
            called = {last_attr(c.func) for c in ast.walk(d) if isinstance(c, ast.Call)}
            # a callback has a role only if its body is the single unconditional call (docstring / logging aside)
            body_ = [st_ for st_ in d.body if not (isinstance(st_, ast.Expr) and isinstance(st_.value, ast.Constant)) and not is_logging_stmt(st_)]
            plain = len(body_) == 1 and isinstance(body_[0], ast.Expr) and isinstance(body_[0].value, (ast.Call, ast.Await))
            if "on_request_start" in called and "on_request_end" not in called:
                role[d.name] = "start" if plain else "conditional start"
            elif "on_request_end" in called and "on_request_start" not in called:
                role[d.name] = "stop" if plain else "conditional stop"
    table = {}
    for n in walk_body(f):
        if isinstance(n, ast.Call) and last_attr(n.func) == "append" and isinstance(n.func.value, ast.Attribute) and isinstance(n.func.value.value, ast.Name) and n.func.value.value.id == tv and n.args:
            table.setdefault(n.func.value.attr, []).append(role.get(u(n.args[0]), u(n.args[0])))
    want = {"on_request_start": ["start"], "on_response_chunk_received": ["stop"], "on_request_end": ["stop"], "on_request_exception": ["stop"]}
    for sig in sorted(set(want) | set(table)):
        got = table.get(sig, [])
        ok = (got == want[sig]) if sig in want else not any(r.endswith(("start", "stop")) for r in got)
        chk.ob(rid, f"trace signal {sig} -> {want.get(sig, ['(nothing)'])[0]} the service-time clock", ok, tc[0], f"registered: {got or 'nothing'}" + ("" if ok else
               (" — the clock stops before the response body has arrived" if sig not in want and "stop" in got else " — the span no longer ends with the last response chunk / an error")),
               key=f"esrally/client/factory.py:EsClientFactory.create_async:trace:{sig}")
    used = [n for n in walk_body(f) if isinstance(n, ast.keyword) and n.arg == "trace_config" and u(n.value) == tv]
    anyuse = any(isinstance(n, ast.Name) and n.id == tv and isinstance(n.ctx, ast.Load) and not isinstance(source.parent(n), ast.Attribute) for n in walk_body(f))
    chk.ob(rid, "the trace configuration is handed to the client", bool(used) or anyuse, tc[0], "")


def check_execute_single(chk, drv, RID, runs=()):
    """Uniform error result and abort policy of execute_single (shared by C04/O4.6 and C09/O9.5b).
    The three result variables are located by role, not by name: they are the names at positions 0/1/2 of the function's single result tuple, and that tuple is tied to its meaning
    through the stable dict keys of the runner protocol (position 0 receives return_value.pop('weight', ..), position 1 .pop('unit', ..), position 2 is the dict carrying 'success')."""
    from sa.sym import truth_table, UnknownAtom

    # ---- O4.6 uniform error result ------------------------------------------------------------------------------------------------------------------
    chk.rule(RID, "execute_single: every absorbing handler yields success False and zero ops; the final raise is controlled by not success and (on_error == 'abort' or fatal); "
             "fatal only for the exact ConnectionError type", 5,
             "on-error=continue aborts (or abort continues), or failed requests are counted as operations")
    es = drv.func("execute_single")
    ge = cfg_of(es)
    trys = [n for n in walk_body(es) if isinstance(n, ast.Try)]
    if not trys:
        raise AnchorMissing("try in execute_single")
    rets = [n for n in es.body if isinstance(n, ast.Return)]
    rv = _root(rets[0].value, local_defs(es)) if len(rets) == 1 and rets[0].value is not None else None  # the tuple itself or a single-assignment temporary holding it
    triple = [x.id for x in rv.elts] if isinstance(rv, ast.Tuple) and len(rv.elts) == 3 and all(isinstance(x, ast.Name) for x in rv.elts) else None
    ops_v, unit_v, meta_v = triple or (None, None, None)

    def assigns_to(root, name):
        return [n for n in ast.walk(root) if name is not None and isinstance(n, ast.Assign) and len(n.targets) == 1 and isinstance(n.targets[0], ast.Name) and n.targets[0].id == name]

    for h in trys[0].handlers:
        hn = [x for x in ge.by_ast.get(id(h), [])]
        absorbing = any(ge.exit.id in ge.reachable([x]) for x in hn)
        tname = u(h.type) if h.type is not None else "<bare>"
        if not absorbing:
            chk.ob(RID, f"handler {tname} raises on every path", True, h, "")
            continue
        md = [n for s in h.body for n in assigns_to(s, meta_v) if isinstance(n.value, ast.Dict)]
        ok = bool(md) and any(source.is_const(k, "success") and source.is_const(v, False) for k, v in zip(md[0].value.keys, md[0].value.values)) and not guards(md[0], stop=h)
        chk.ob(RID, f"handler {tname}: success False", ok, h, "" if triple else "the result triple of execute_single could not be identified")
        ops = [n for s in h.body for n in assigns_to(s, ops_v)]
        ok = bool(ops) and source.is_const(ops[0].value, 0) and not guards(ops[0], stop=h)
        chk.ob(RID, f"handler {tname}: zero ops", ok, h, "" if triple else "the result triple of execute_single could not be identified")
    # error flags: locals set to True inside a handler of the request's try (the flag the abort condition may consult in addition to on_error)
    flags = {n.targets[0].id for h in trys[0].handlers for n in ast.walk(h) if isinstance(n, ast.Assign) and len(n.targets) == 1 and isinstance(n.targets[0], ast.Name) and source.is_const(n.value, True)}
    fin = [n for n in walk_body(es) if isinstance(n, ast.Raise) and not any(isinstance(a, (ast.ExceptHandler, ast.Try)) for a in source.ancestors(n) if a is not es)]
    ok = False
    detail = "no final raise"
    if fin:
        gs = guards(fin[0])

        def classify(n):
            if meta_v is not None and pat.is_(n, "V_m['success']", binds={"m": meta_v}):
                return "success"
            if pat.is_(n, "on_error == 'abort'"):
                return "abort"
            if isinstance(n, ast.Name) and n.id in flags:
                return "fatal"
            return None

        try:
            good = True
            for s_ in (False, True):
                for a_ in (False, True):
                    for f_ in (False, True):
                        env = {"success": s_, "abort": a_, "fatal": f_}
                        val = True
                        for t, pol in gs:
                            rows = truth_table(t, ["success", "abort", "fatal"], classify)
                            v = [r for e, r in rows if e == env][0]
                            val = val and (v == pol)
                        want = (not s_) and (a_ or f_)
                        good = good and (val == want)
            ok = good
            detail = f"raise under {[(u(t), p) for t, p in gs]}"
        except UnknownAtom as e:
            detail = f"foreign atom in the abort condition: {e}"
    chk.ob(RID, "abort condition == not success and (abort or fatal)", ok, fin[0] if fin else es, detail)
    # every assignment that can raise an error flag (anything but the constant False) is under the exact-type test of the handler's own exception
    fsets = [n for n in walk_body(es) if isinstance(n, ast.Assign) and len(n.targets) == 1 and isinstance(n.targets[0], ast.Name) and n.targets[0].id in flags and not source.is_const(n.value, False)]

    def exact_connection_error(n):
        h = source.enclosing(n, ast.ExceptHandler)
        if h is None or not h.name:
            return False
        return pat.guarded(n, "type(V_e) is elasticsearch.ConnectionError", "elasticsearch.ConnectionError is type(V_e)", "type(V_e) == elasticsearch.ConnectionError", stop=h, binds={"e": h.name}) is not None

    ok = bool(fsets) and all(exact_connection_error(n) for n in fsets)
    chk.ob(RID, "fatal only for the exact ConnectionError type", ok, fsets[0] if fsets else es, "")
    # the single result tuple carries (number of operations, their unit, meta data) in this order: tied to the runner protocol's dict keys
    ok = triple is not None and len(set(triple)) == 3
    detail = ""
    if ok:
        by_key = {}
        for key_ in ("weight", "unit"):
            by_key[key_] = {n.targets[0].id for n in walk_body(es) if isinstance(n, ast.Assign) and len(n.targets) == 1 and isinstance(n.targets[0], ast.Name)
                            and isinstance(n.value, ast.Call) and last_attr(n.value.func) == "pop" and n.value.args and source.is_const(n.value.args[0], key_)}
        success_dicts = {n.targets[0].id for n in walk_body(es) if isinstance(n, ast.Assign) and len(n.targets) == 1 and isinstance(n.targets[0], ast.Name) and isinstance(n.value, ast.Dict)
                         and any(source.is_const(k, "success") for k in n.value.keys)}
        ok = by_key["weight"] == {ops_v} and by_key["unit"] == {unit_v} and success_dicts == {meta_v}
        detail = f"returns ({', '.join(triple)}); 'weight' -> {sorted(by_key['weight'])}, 'unit' -> {sorted(by_key['unit'])}, success dict -> {sorted(success_dicts)}"
    chk.ob(RID, "uniform result triple", ok, rets[0] if rets else es, detail)
    # unpacked in the loop in the same order: position i of the unpacking is the value handed to the sampler as ops / ops_unit / meta_data
    for r in runs:
        asg = source.enclosing_stmt(r)
        got = unpacked_result(r)
        fn = source.enclosing_func(r)
        adds = [n for n in ast.walk(fn) if isinstance(n, ast.Call) and u(n.func) == "self.sampler.add"] if fn is not None else []
        ok = False
        detail = "the runner's result is not unpacked into three names next to a self.sampler.add(...) call"
        if got is not None and len(got) == 3 and len(set(got)) == 3 and adds:
            defs_ = local_defs(fn)
            b = bind_args(adds[0], drv.methods(drv.cls("Sampler"))["add"])
            sent = [u(inline_node(b[p_], defs_)) if p_ in b else None for p_ in ("ops", "ops_unit", "meta_data")]
            ok = sent == got
            detail = f"unpacked as ({', '.join(got)}); sampler.add receives ops={sent[0]}, ops_unit={sent[1]}, meta_data={sent[2]}"
        chk.ob(RID, "result triple unpacked in order", ok, asg, detail)



from sa.selftest import V  # noqa: E402

_F39_METHOD = ("    async def perform_request(self, *args, **kwargs):\n        try:\n            return await super().perform_request(*args, **kwargs)\n        except BaseException:\n            # aiohttp only signals `on_request_exception` until the response *headers* have arrived. A request that fails\n            # later (timeout / disconnect while the body is read) ends now and not when its headers were received.\n            try:\n                RequestContextHolder.on_request_end()\n            except LookupError:\n                pass\n            raise\n\n")

VARIANTS = [
    V("latency from request_start", "break", _D, "                latency = request_end - absolute_expected_schedule_time if throughput_throttled else service_time", "                latency = request_end - request_start if throughput_throttled else service_time", "O4.1"),
    V("service time from processing_end", "break", _D, "                service_time = request_end - request_start", "                service_time = processing_end - request_start", "O4.1"),
    V("throttled >= 0", "break", _D, "                throughput_throttled = expected_scheduled_time > 0", "                throughput_throttled = expected_scheduled_time >= 0", "O4.1"),
    V("seed m1: throttled only when actually waiting", "break", _D,
      "                throughput_throttled = expected_scheduled_time > 0\n                if throughput_throttled:\n                    rest = absolute_expected_schedule_time - time.perf_counter()\n                    if rest > 0:\n                        await asyncio.sleep(rest)",
      "                rest = absolute_expected_schedule_time - time.perf_counter()\n                throughput_throttled = expected_scheduled_time > 0 and rest > 0\n                if throughput_throttled:\n                    await asyncio.sleep(rest)", "O4."),
    V("processing_start inside the context", "break", _D, "                processing_start = time.perf_counter()\n                self.schedule_handle.before_request(processing_start)\n                with self.es[\"default\"].new_request_context() as request_context:",
      "                with self.es[\"default\"].new_request_context() as request_context:\n                    processing_start = time.perf_counter()\n                    self.schedule_handle.before_request(processing_start)", "O4.2"),
    V("seed m2: issue stamp moved above the wait", "break", _D,
      "                throughput_throttled = expected_scheduled_time > 0\n                if throughput_throttled:\n                    rest = absolute_expected_schedule_time - time.perf_counter()\n                    if rest > 0:\n                        await asyncio.sleep(rest)\n\n                absolute_processing_start = time.time()\n",
      "                throughput_throttled = expected_scheduled_time > 0\n                absolute_processing_start = time.time()\n                if throughput_throttled:\n                    rest = absolute_expected_schedule_time - time.perf_counter()\n                    if rest > 0:\n                        await asyncio.sleep(rest)\n\n", "O4.2"),
    V("sleep deleted", "break", _D, "                    if rest > 0:\n                        await asyncio.sleep(rest)\n", "                    pass\n", "O4.3"),
    V("sleep on the relative time", "break", _D, "                    rest = absolute_expected_schedule_time - time.perf_counter()", "                    rest = expected_scheduled_time - time.perf_counter()", "O4.3"),
    V("second sampler.add on error", "break", _D, "                if completed:\n                    self.logger.info(\"Task [%s] is considered completed due to external event.\", self.task)\n                    break",
      "                if not request_meta_data.get('success'):\n                    self.sampler.add(self.task, self.client_id, sample_type, request_meta_data, absolute_processing_start, request_start, latency, service_time, processing_time, throughput, total_ops, total_ops_unit, time_period, progress)\n                if completed:\n                    break", "O4.4"),
    V("skip sample for zero ops", "break", _D, "                self.sampler.add(\n                    self.task,\n                    self.client_id,", "                if total_ops > 0:\n                  self.sampler.add(\n                    self.task,\n                    self.client_id,", "O4.4"),
    V("swap latency/service_time at the call", "break", _D, "                    request_start,\n                    latency,\n                    service_time,\n                    processing_time,\n                    throughput,", "                    request_start,\n                    service_time,\n                    latency,\n                    processing_time,\n                    throughput,", "O4.5"),
    V("swap in Sampler.add -> Sample", "break", _D, "                    latency,\n                    service_time,\n                    processing_time,\n                    throughput,\n                    ops,", "                    latency,\n                    processing_time,\n                    service_time,\n                    throughput,\n                    ops,", "O4.5"),
    V("Sample init swaps absolute_time/request_start", "break", _D, "        self.absolute_time = absolute_time\n        self.request_start = request_start", "        self.absolute_time = request_start\n        self.request_start = absolute_time", "O4.5"),
    V("abort even on continue", "break", _D, "        if on_error == \"abort\" or fatal_error:", "        if on_error != \"continue-on-network\" or fatal_error:", "O4.6"),
    V("fatal for any transport error", "break", _D, "        if type(e) is elasticsearch.ConnectionError:\n            fatal_error = True", "        if isinstance(e, elasticsearch.TransportError):\n            fatal_error = True", "O4.6"),
    V("api error counted as one op", "break", _D, "    except elasticsearch.ApiError as e:\n        total_ops = 0", "    except elasticsearch.ApiError as e:\n        total_ops = 1", "O4.6"),
    V("seed m3: context start merged with max", "break", _C, "min(current, new_request_start)", "max(current, new_request_start)", "O4.1"),
    # preserving
    V("keyword arguments at the call", "keep", _D, "                    request_start,\n                    latency,\n                    service_time,\n                    processing_time,\n                    throughput,\n                    total_ops,\n                    total_ops_unit,\n                    time_period,\n                    progress,\n                    request_meta_data.pop(\"dependent_timing\", None),",
      "                    request_start,\n                    latency,\n                    service_time,\n                    processing_time=processing_time,\n                    throughput=throughput,\n                    ops=total_ops,\n                    ops_unit=total_ops_unit,\n                    time_period=time_period,\n                    percent_completed=progress,\n                    dependent_timing=request_meta_data.pop(\"dependent_timing\", None),"),
    V("inverted conditional latency", "keep", _D, "                latency = request_end - absolute_expected_schedule_time if throughput_throttled else service_time", "                latency = request_end - (schedule_start + expected_scheduled_time) if throughput_throttled else service_time"),
    V("temporaries for the context values", "keep", _D, "                service_time = request_end - request_start", "                duration = request_end - request_start\n                service_time = duration"),
    # F40 (rally 249cfef): the schedule's zero point is taken after the ramp-up wait
    [V("F40 reverted: schedule anchored at the task start taken before the ramp-up wait", "break", _D,
       "        # the client's schedule starts when the client starts, i.e. after any ramp-up wait\n        schedule_start = time.perf_counter() if rampup_wait_time else total_start\n", "", "O4.7"),
     V("", "break", _D, "                absolute_expected_schedule_time = schedule_start + expected_scheduled_time", "                absolute_expected_schedule_time = total_start + expected_scheduled_time")],
    V("F40 equivalent break: schedule start is an alias of the task start", "break", _D, "        schedule_start = time.perf_counter() if rampup_wait_time else total_start\n", "        schedule_start = total_start\n", "O4.7"),
    V("F40 equivalent break: schedule start read after the wait only when there was NO wait", "break", _D, "        schedule_start = time.perf_counter() if rampup_wait_time else total_start\n",
      "        schedule_start = total_start if rampup_wait_time else time.perf_counter()\n", "O4.7"),
    V("F40 half repair: sleep-until on the new zero point, latency still from the task start", "break", _D,
      "                latency = request_end - absolute_expected_schedule_time if throughput_throttled else service_time",
      "                latency = request_end - (total_start + expected_scheduled_time) if throughput_throttled else service_time", "O4."),
    V("schedule zero point is a constant, not a reading of the clock", "break", _D, "        schedule_start = time.perf_counter() if rampup_wait_time else total_start\n", "        schedule_start = 0.0\n", "O4.1"),
    V("F40 respelled: zero point re-read unconditionally after the ramp-up branch", "keep", _D, "        schedule_start = time.perf_counter() if rampup_wait_time else total_start\n", "        schedule_start = time.perf_counter()\n"),
    V("F40 respelled: zero point chosen by an if/else statement with the arms the other way round", "keep", _D, "        schedule_start = time.perf_counter() if rampup_wait_time else total_start\n",
      "        if not rampup_wait_time:\n            schedule_start = total_start\n        else:\n            schedule_start = time.perf_counter()\n"),
    V("F40 respelled: zero point read inside the ramp-up branch right after the sleep", "keep", _D,
      "            await asyncio.sleep(rampup_wait_time)\n        # the client's schedule starts when the client starts, i.e. after any ramp-up wait\n        schedule_start = time.perf_counter() if rampup_wait_time else total_start\n",
      "            await asyncio.sleep(rampup_wait_time)\n            schedule_start = time.perf_counter()\n        else:\n            schedule_start = total_start\n"),
    V("F40 respelled: test on the wait amount spelled as a comparison", "keep", _D, "        schedule_start = time.perf_counter() if rampup_wait_time else total_start\n",
      "        schedule_start = time.perf_counter() if rampup_wait_time > 0 else total_start\n"),
    V("F40 other repair: zero point = task start + the ramp-up delay", "keep", _D, "        schedule_start = time.perf_counter() if rampup_wait_time else total_start\n",
      "        schedule_start = total_start + rampup_wait_time\n"),
    V("F40 respelled: zero point added inside the latency formula, sleep-until on the same sum", "keep", _D,
      "                latency = request_end - absolute_expected_schedule_time if throughput_throttled else service_time",
      "                latency = request_end - expected_scheduled_time - schedule_start if throughput_throttled else service_time"),
    # F39 (rally 09d2ce8): a failed wire request ends when it fails
    V("F39 reverted: the node class does not record the end of a failed request", "break", _A, _F39_METHOD, "", "O4.8"),
    V("F39 break: the end of a failed request is only recorded if none was recorded before (first byte wins again)", "break", _A,
      "            try:\n                RequestContextHolder.on_request_end()\n            except LookupError:\n                pass\n            raise\n",
      "            try:\n                if RequestContextHolder.request_context.get().get(\"request_end\") is None:\n                    RequestContextHolder.on_request_end()\n            except LookupError:\n                pass\n            raise\n", "O4.8"),
    V("F39 break: only client errors of aiohttp end the request, a timeout does not", "break", _A, "        except BaseException:\n            # aiohttp only signals", "        except aiohttp.ClientError:\n            # aiohttp only signals", "O4.8"),
    V("F39 break: the failure is recorded and swallowed", "break", _A, "            except LookupError:\n                pass\n            raise\n", "            except LookupError:\n                pass\n", "O4.8"),
    V("F39 break: the transport is built with the library's node class", "break", _A, "node_class=RallyAiohttpHttpNode", "node_class=AiohttpHttpNode", "O4.8"),
    V("F39 respelled: handler for Exception, result through a temporary, end recorded through update_request_end", "keep", _A,
      "        try:\n            return await super().perform_request(*args, **kwargs)\n        except BaseException:\n            # aiohttp only signals `on_request_exception` until the response *headers* have arrived. A request that fails\n            # later (timeout / disconnect while the body is read) ends now and not when its headers were received.\n            try:\n                RequestContextHolder.on_request_end()\n",
      "        try:\n            response = await super().perform_request(*args, **kwargs)\n            return response\n        except Exception:\n            try:\n                RequestContextHolder.update_request_end(time.perf_counter())\n"),
    V("F39 respelled: missing context suppressed with contextlib, explicit re-raise of the bound exception", "keep", _A,
      "        except BaseException:\n            # aiohttp only signals `on_request_exception` until the response *headers* have arrived. A request that fails\n            # later (timeout / disconnect while the body is read) ends now and not when its headers were received.\n            try:\n                RequestContextHolder.on_request_end()\n            except LookupError:\n                pass\n            raise\n",
      "        except BaseException as failure:\n            import contextlib\n\n            with contextlib.suppress(LookupError):\n                RequestContextHolder.on_request_end()\n            raise failure\n"),
    [V("F39 other repair: the end of a failed request is recorded by the client's perform_request around the transport call", "keep", _A,
       _F39_METHOD, ""),
     V("", "keep", _A,
       "        meta, resp_body = await self.transport.perform_request(\n            method,\n            target,\n            headers=request_headers,\n            body=body,\n            request_timeout=self._request_timeout,\n            max_retries=self._max_retries,\n            retry_on_status=self._retry_on_status,\n            retry_on_timeout=self._retry_on_timeout,\n            client_meta=self._client_meta,\n        )\n",
       "        try:\n            meta, resp_body = await self.transport.perform_request(\n                method,\n                target,\n                headers=request_headers,\n                body=body,\n                request_timeout=self._request_timeout,\n                max_retries=self._max_retries,\n                retry_on_status=self._retry_on_status,\n                retry_on_timeout=self._retry_on_timeout,\n                client_meta=self._client_meta,\n            )\n        except BaseException:\n            self.on_request_end()\n            raise\n")],
]
