"""C18 — request timings span all sub-requests and never leak between clients (DESIGN.md section 4, C18)."""
from __future__ import annotations

import ast

from sa import pat, source
from sa.cfg import cfg_of, guards
from sa.classes import is_logging_stmt
from sa.minieval import CannotEval, ev
from sa.source import AnchorMissing, dotted, is_self_attr, last_attr, local_defs, params_of, short, u, walk_body

_C = "esrally/client/context.py"
_R = "esrally/driver/runner.py"
_D = "esrally/driver/driver.py"


_ABSENT = object()


class _Stuck(Exception):
    """the abstract run of a holder method left the interpreted fragment (or the code under analysis would raise)"""


def _context_var(cls) -> str | None:
    """name of the class-level ContextVar of the holder class (role: the attribute assigned from ContextVar(...))"""
    for n in getattr(cls, "body", []):
        if isinstance(n, ast.Assign) and isinstance(n.value, ast.Call) and last_attr(n.value.func) == "ContextVar" and isinstance(n.targets[0], ast.Name):
            return n.targets[0].id
    return None


def _is_ctx_get(e, cv) -> bool:
    """`<...>.<cv>.get()`: the current context's dict (a zero-argument get() is never dict.get)"""
    return isinstance(e, ast.Call) and not e.args and not e.keywords and isinstance(e.func, ast.Attribute) and e.func.attr == "get" and isinstance(e.func.value, ast.Attribute) \
        and (cv is None or e.func.value.attr == cv)


def _evaluable(e, cv):
    """copy of e in which the current-context read is the name __ctx__ and two-argument min()/max() are conditional expressions, so that minieval can evaluate it
    (a None operand then fails the comparison exactly as min()/max() would raise)."""

    class T(ast.NodeTransformer):
        def visit_Call(self, n):
            if _is_ctx_get(n, cv):
                return ast.Name(id="__ctx__", ctx=ast.Load())
            self.generic_visit(n)
            if dotted(n.func) in ("min", "max") and len(n.args) == 2 and not n.keywords and not any(isinstance(a, ast.Starred) for a in n.args):
                a, b = n.args
                return ast.IfExp(test=ast.Compare(left=a, ops=[ast.LtE() if dotted(n.func) == "min" else ast.GtE()], comparators=[b]), body=a, orelse=b)
            return n

    return ast.fix_missing_locations(T().visit(source.clone(e)))


def apply_update(func, new_name: str, new_val, state: dict, cv) -> dict:
    """Abstract run of the holder method `func` with its value parameter bound to new_val on a copy of the context dict `state`; returns the dict afterwards.
    Interprets assignments to locals / to keys of the context dict, if, pass, return and logging statements; anything else (or an evaluation failure) raises _Stuck."""
    ctxd = dict(state)
    env = {new_name: new_val, "__ctx__": ctxd}

    def val(e):
        try:
            return ev(_evaluable(e, cv), env)
        except CannotEval as x:
            raise _Stuck(str(x))

    class _Return(Exception):
        pass

    def block(stmts):
        for s in stmts:
            if is_logging_stmt(s) or isinstance(s, ast.Pass) or (isinstance(s, ast.Expr) and isinstance(s.value, ast.Constant)):
                continue
            if isinstance(s, ast.If):
                block(s.body if val(s.test) else s.orelse)
            elif isinstance(s, ast.Return):
                raise _Return()
            elif isinstance(s, ast.Assign) and len(s.targets) == 1 and isinstance(s.targets[0], ast.Name):
                env[s.targets[0].id] = val(s.value)
            elif isinstance(s, ast.Assign) and len(s.targets) == 1 and isinstance(s.targets[0], ast.Subscript):
                d, k, v = val(s.targets[0].value), val(s.targets[0].slice), val(s.value)
                if d is not ctxd:
                    raise _Stuck(f"store into {u(s.targets[0].value)}")
                d[k] = v
            else:
                raise _Stuck(f"statement {short(s, 60)}")

    try:
        block(func.body)
    except _Return:
        pass
    return ctxd


_REF = {"min": lambda c, n: n if c is _ABSENT else min(c, n), "max": lambda c, n: n if c is _ABSENT else max(c, n), "first": lambda c, n: n if c is _ABSENT else c, "last": lambda c, n: n}
_CUR = (_ABSENT, 0.0, 5.0)  # reachable values of the recorded time (0.0: a recorded time is not 'missing' because it is falsy)
_NEW = (0.0, 3.0, 5.0, 7.0)


def merge_kind(func, key: str):
    """Classify how `func(new)` merges `new` into meta[key]: 'min' | 'max' | 'first' | 'last' | 'unknown'. Also whether None is ignored.
    Decided by value: the method body is evaluated on every (recorded value, new value) pair of a small domain, with and without the sibling timing key present, and the
    resulting table is compared with the tables of the four operators; a missing (None) new value must leave the context observationally unchanged."""
    ps = [p for i, p in enumerate(params_of(func)) if not (i == 0 and p in ("self", "cls"))]
    stores = [n for n in walk_body(func) if isinstance(n, ast.Assign) and isinstance(n.targets[0], ast.Subscript) and source.is_const(n.targets[0].slice, key)]
    if not stores:
        return "unknown", False, None
    if len(ps) != 1:
        return "unknown", False, stores[0]
    new = ps[0]
    cv = _context_var(source.enclosing_class(func))
    other = {"request_start": ("request_end", 6.0), "request_end": ("request_start", 4.0)}.get(key)
    extras = [{}] + ([{other[0]: other[1]}] if other else [])

    def states():
        for x in extras:
            for c in _CUR:
                yield c, dict(x, **({} if c is _ABSENT else {key: c}))

    kinds = set(_REF)
    for c, st in states():
        for n in _NEW:
            try:
                got = apply_update(func, new, n, st, cv).get(key, _ABSENT)
            except _Stuck:
                kinds = set()
                break
            kinds = {k for k in kinds if _REF[k](c, n) == got and got is not _ABSENT}
    none_safe = True
    for c, st in states():
        try:
            after = apply_update(func, new, None, st, cv)
            same = after.get(key) == st.get(key) and all(apply_update(func, new, n, after, cv).get(key) == apply_update(func, new, n, st, cv).get(key) for n in (3.0, 7.0))
        except _Stuck:
            same = False
        none_safe = none_safe and same
    return (kinds.pop() if len(kinds) == 1 else "unknown"), none_safe, stores[0]


def _bound_context(w) -> str:
    """the local a `with <client>.new_request_context() as V` statement binds the context object to"""
    for i in w.items:
        if "new_request_context" in u(i.context_expr):
            if isinstance(i.optional_vars, ast.Name):
                return i.optional_vars.id
            raise AnchorMissing(f"request context at line {w.lineno} is not bound to a local (with ... as <name>)")
    raise AnchorMissing(f"with statement at line {w.lineno} opens no request context")


def propagation_guard_rule(chk, rid, ctx):
    """RequestContextManager.__exit__ hands its start / end to the enclosing context whenever there is one — also when the block ends with an exception (a failed sub-request of a
    composite still belongs to the logical request). The only guard fact allowed is "the token has an old value". Shared with C04 (service time under error outcomes)."""
    from sa import pat
    RCM = ctx.cls("RequestContextManager")
    ex = ctx.methods(RCM).get("__exit__")
    if ex is None:
        raise AnchorMissing("RequestContextManager.__exit__")
    props = [c for c in source.calls_in(ex) if isinstance(c.func, ast.Attribute) and is_self_attr(c.func.value, "ctx_holder") and c.func.attr not in ("restore_context",)]
    if not props:
        raise AnchorMissing("propagation calls in RequestContextManager.__exit__")
    for p in props:
        fs = pat.fact_nodes(p)
        ok = len(fs) == 1 and pat.is_(fs[0], "self.token.old_value != contextvars.Token.MISSING", "self.token.old_value is not contextvars.Token.MISSING", "contextvars.Token.MISSING is not self.token.old_value")
        chk.ob(rid, "propagation only when a parent context exists", ok, p, f"guards {[(u(t), pol) for t, pol in guards(p)]}")


def run(chk):
    repo = chk.repo
    ctx, run_, drv = repo.module(_C), repo.module(_R), repo.module(_D)
    chk.use(ctx, run_, drv)
    chk.explanation = (
        "Decides the merge operator and isolation skeleton: values propagated from a child context to its parent on exit are merged with a commutative, idempotent, "
        "None-safe operator (min for the start, max for the end) so that the exit order of concurrent children cannot matter; all timing state is reached through one "
        "ContextVar whose only set installs a fresh dict and is reset on exit; propagation only when a parent exists; the executor and the composite's per-operation wrapper "
        "each enclose exactly one delegate call in their own context and read start/end from that context."
    )
    chk.not_decided = "asyncio scheduling, aiohttp trace timing, clock behaviour."
    RCM = ctx.cls("RequestContextManager")
    RCH = ctx.cls("RequestContextHolder")
    hm = ctx.methods(RCH)
    mm = ctx.methods(RCM)

    # ---- O18.1 order-insensitive propagation -------------------------------------------------------------------------------------------
    chk.rule("O18.1", "values propagated from a child context to its parent at exit are merged with a commutative, idempotent, None-safe operator: min for the start, max for the end", 4,
             "two concurrent streams where the later-started one finishes first: the logical request's start is not the earliest start (or a sub-context without a request overwrites a value with None)")
    ex = mm.get("__exit__")
    if ex is None:
        raise AnchorMissing("RequestContextManager.__exit__")
    props = [c for c in source.calls_in(ex) if isinstance(c.func, ast.Attribute) and is_self_attr(c.func.value, "ctx_holder") and c.func.attr not in ("restore_context",)]
    if len(props) < 1:
        raise AnchorMissing("propagation calls in RequestContextManager.__exit__")
    want = {"request_start": "min", "request_end": "max"}
    seen = set()
    exdefs = local_defs(ex)
    for c in props:
        f = hm.get(c.func.attr)
        if f is None:
            chk.ob("O18.1", f"propagation via {c.func.attr}", False, c, "unknown holder method")
            continue
        argt = source.inline(c.args[0], exdefs) if c.args else ""  # the propagated value, seen through single-assignment locals
        key = "request_start" if "request_start" in argt else ("request_end" if "request_end" in argt else None)
        if key is None:
            chk.ob("O18.1", f"propagated value {argt}", False, c, "not the context's own start/end")
            continue
        seen.add(key)
        kind, none_safe, store = merge_kind(f, key)
        chk.ob("O18.1", f"{key} merged into the parent with {want[key]}", kind == want[key], store if store is not None else f,
               f"operator of {f.name}: {kind}" + ("" if kind == want[key] else " — order-sensitive or wrong direction: the parent does not record the earliest start / latest end of all sub-requests"),
               key=f"{_C}:{f.name}:merge:{key}")
        chk.ob("O18.1", f"{key} merge ignores a missing child value", none_safe, store if store is not None else f, "" if none_safe else "a child context without a request propagates None", key=f"{_C}:{f.name}:none-safe:{key}")
    chk.ob("O18.1", "both start and end are propagated", seen == {"request_start", "request_end"}, ex, f"propagated: {sorted(seen)}")
    # the manager's properties read the same keys
    for p, key in (("request_start", "request_start"), ("request_end", "request_end")):
        f = mm.get(p)
        rets = [source.inline(n.value, local_defs(f)) for n in walk_body(f) if isinstance(n, ast.Return) and n.value is not None] if f is not None else []
        ok = any("self.ctx" in t and f"'{key}'" in t for t in rets)
        chk.ob("O18.1", f"context property {p} reads key '{key}'", ok, f if f is not None else RCM, "")
    # wire callbacks route through the same merge with the monotonic clock
    for cb, upd in (("on_request_start", "update_request_start"), ("on_request_end", "update_request_end")):
        f = hm.get(cb)
        ok = f is not None and any(isinstance(n, ast.Call) and last_attr(n.func) == upd and n.args and pat.is_(source.inline_node(n.args[0], local_defs(f)), "time.perf_counter()") for n in walk_body(f))
        chk.ob("O18.1", f"{cb} records perf_counter() through {upd}", ok, f if f is not None else RCH, "")

    from rules.C04 import trace_hook_table

    trace_hook_table(chk, "O18.1", repo)

    # ---- O18.2 isolation ---------------------------------------------------------------------------------------------------------------------
    chk.rule("O18.2", "all timing state is reached through one ContextVar; its only set installs a fresh dict; reset(token) on exit before propagation; propagation only when the token had an old value; "
             "no module- or class-level mutable timing state", 6,
             "two clients in one process: one client's request timings leak into the other's samples")
    cvars = [n for n in RCH.body if isinstance(n, ast.Assign) and isinstance(n.value, ast.Call) and last_attr(n.value.func) == "ContextVar"]
    chk.ob("O18.2", "one ContextVar holds the request context", len(cvars) == 1, cvars[0] if cvars else RCH, f"{len(cvars)} ContextVar(s)")
    cv = cvars[0].targets[0].id if cvars else "request_context"
    mut = [n for n in list(RCH.body) + list(ctx.tree.body) if isinstance(n, ast.Assign) and isinstance(n.value, (ast.Dict, ast.List, ast.Set)) or
           (isinstance(n, ast.Assign) and isinstance(n.value, ast.Call) and dotted(n.value.func) in ("dict", "list", "set", "collections.defaultdict"))]
    chk.ob("O18.2", "no module/class-level mutable container in the context module", not mut, mut[0] if mut else RCH, "")
    sets = [n for n in ast.walk(ctx.tree) if isinstance(n, ast.Call) and last_attr(n.func) == "set" and isinstance(n.func, ast.Attribute) and last_attr(n.func.value) == cv]
    ok = len(sets) == 1
    fresh = False
    if ok and sets[0].args:
        a = sets[0].args[0]
        f = source.enclosing_func(sets[0])
        d = local_defs(f).get(a.id) if isinstance(a, ast.Name) and f is not None else a  # the installed value, through the local it was built in
        fresh = isinstance(d, ast.Dict) and not d.keys
    chk.ob("O18.2", "single ContextVar.set, installing a fresh dict", ok and fresh, sets[0] if sets else RCH, f"{len(sets)} set site(s), fresh={fresh}")
    if sets and source.enclosing_func(sets[0]) is not None:
        f = source.enclosing_func(sets[0])
        r = [n for n in walk_body(f) if isinstance(n, ast.Return)]
        ok = len(r) == 1 and isinstance(r[0].value, ast.Tuple) and len(r[0].value.elts) == 2
        chk.ob("O18.2", "init returns (dict, token)", ok, f, "")
    ent = mm.get("__enter__")
    ok = ent is not None and any(isinstance(n, ast.Assign) and isinstance(n.targets[0], ast.Tuple) and [u(t) for t in n.targets[0].elts] == ["self.ctx", "self.token"]
                                 and pat.is_(source.inline_node(n.value, local_defs(ent)), "E_holder.init_request_context()") for n in walk_body(ent))
    chk.ob("O18.2", "__enter__ stores (ctx, token) from init_request_context()", ok, ent if ent is not None else RCM, "")
    g = cfg_of(ex)
    resets = [c for c in source.calls_in(ex) if last_attr(c.func) == "restore_context"]
    ok = len(resets) == 1 and len(resets[0].args) == 1 and source.inline(resets[0].args[0], exdefs) == "self.token" and not guards(resets[0]) and all(g.dominated_by_nodes(g.node_of(p), [g.node_of(resets[0])]) for p in props)
    chk.ob("O18.2", "context restored (reset(token)) unconditionally before propagation", ok, resets[0] if resets else ex, "")
    ok = bool(resets) and g.must_pass(g.entry, [g.node_of(r_) for r_ in resets])
    pth = None
    if resets and not ok:
        p_ = g.find_path(g.entry, g.exit, avoid=[g.node_of(r_) for r_ in resets])
        pth = g.describe_path(p_) if p_ else None
    chk.ob("O18.2", "every normal exit of __exit__ has restored the enclosing context", ok, resets[0] if resets else ex,
           "" if ok else "a path leaves the context manager without reset(token): later requests of the task are booked on the stale nested context", path=pth,
           key=f"{_C}:RequestContextManager.__exit__:restore-on-every-exit")
    rc = hm.get("restore_context")
    ok = rc is not None and any(isinstance(n, ast.Call) and isinstance(n.func, ast.Attribute) and n.func.attr == "reset" and last_attr(n.func.value) == cv and len(n.args) == 1
                                and source.inline(n.args[0], local_defs(rc)) == params_of(rc)[-1] for n in walk_body(rc))
    chk.ob("O18.2", "restore_context resets the ContextVar with the token", ok, rc if rc is not None else RCH, "")
    propagation_guard_rule(chk, "O18.2", ctx)
    # __exit__ does not swallow exceptions
    rets = [n for n in walk_body(ex) if isinstance(n, ast.Return)]
    ok = all(r.value is None or source.is_const(source.inline_node(r.value, exdefs), False) for r in rets)
    chk.ob("O18.2", "__exit__ never swallows exceptions", ok, ex, "")
    # every reader goes through ContextVar.get()
    for name, f in hm.items():
        for n in walk_body(f):
            if isinstance(n, ast.Subscript) and isinstance(n.value, ast.Name) and isinstance(n.ctx, ast.Store):
                d = local_defs(f).get(n.value.id)
                ok = isinstance(d, ast.Call) and isinstance(d.func, ast.Attribute) and d.func.attr == "get" and last_attr(d.func.value) == cv
                chk.ob("O18.2", f"{name}: timing written into the current context's dict", ok, n, f"{n.value.id} = {u(d) if d is not None else '?'}")

    # ---- O18.3 enclosure -------------------------------------------------------------------------------------------------------------------------
    chk.rule("O18.3", "the executor's runner invocation is inside a fresh request context per request and reads start/end from that context; the composite's per-operation wrapper "
             "encloses exactly the delegate call in its own context and computes its service time from that context; every sub-request of the composite is wrapped", 6,
             "a sub-request's timing covers its siblings, or the logical request misses sub-requests issued outside its context")
    from rules.C04 import request_loop

    call, L = request_loop(drv)
    withs = [n for n in ast.walk(L) if isinstance(n, ast.With) and any("new_request_context" in u(i.context_expr) for i in n.items)]
    ok = len(withs) == 1 and source.enclosing(withs[0], (ast.AsyncFor, ast.For, ast.While)) is L
    chk.ob("O18.3", "executor: one fresh request context per request (inside the loop)", ok, withs[0] if withs else L, "")
    if withs:
        cvn = _bound_context(withs[0])
        runs = [n for n in ast.walk(withs[0]) if isinstance(n, ast.Call) and last_attr(n.func) == "execute_single"]
        chk.ob("O18.3", "executor: runner invoked inside its context", len(runs) == 1, withs[0], "")
        reads = [n for n in ast.walk(L) if isinstance(n, ast.Attribute) and n.attr in ("request_start", "request_end") and isinstance(n.value, ast.Name)]
        ok = bool(reads) and all(r.value.id == cvn for r in reads)
        chk.ob("O18.3", "executor: start/end read from that context object", ok, reads[0] if reads else L, "")
        # reads happen after the runner returned
        gg = cfg_of(call)
        ok = all(gg.dominated_by_nodes(gg.node_of(r), [gg.node_of(runs[0])]) for r in reads) if runs else False
        chk.ob("O18.3", "executor: start/end read after the runner returned", ok, reads[0] if reads else L, "")
        # what the sample records as the start of the logical request is the context's (earliest) request start, not another clock reading of the same type
        adds = [n for n in ast.walk(L) if isinstance(n, ast.Call) and u(n.func) == "self.sampler.add"]
        sadd = drv.methods(drv.cls("Sampler")).get("add")
        ok = False
        detail = ""
        if adds and sadd is not None:
            ldefs = {n.targets[0].id: n.value for n in ast.walk(L) if isinstance(n, ast.Assign) and len(n.targets) == 1 and isinstance(n.targets[0], ast.Name)}
            b_ = source.bind_args(adds[0], sadd)
            rsv = b_.get("request_start")
            got = source.inline(rsv, ldefs, no_calls=True) if rsv is not None else None
            ok = got == f"{cvn}.request_start"
            detail = f"request_start := {got}"
        chk.ob("O18.3", "executor: the sample's request_start is the context's request_start", ok, adds[0] if adds else L, detail, key=f"{_D}:AsyncExecutor.__call__:sample-request-start")
    RT = run_.cls("RequestTiming")
    rt = run_.methods(RT).get("__call__")
    if rt is None:
        raise AnchorMissing("RequestTiming.__call__")
    rw = [n for n in walk_body(rt) if isinstance(n, ast.With) and any("new_request_context" in u(i.context_expr) for i in n.items)]
    ok = len(rw) == 1
    chk.ob("O18.3", "per-operation wrapper opens its own context", ok, rw[0] if rw else rt, "")
    if rw:
        cvn = _bound_context(rw[0])
        dels = [n for n in walk_body(rt) if isinstance(n, ast.Call) and u(n.func) == "self.delegate"]
        ok = len(dels) == 1 and rw[0] in list(source.ancestors(dels[0]))
        chk.ob("O18.3", "wrapper: exactly one delegate call, inside the context", ok, dels[0] if dels else rt, f"{len(dels)} delegate call(s)")
        rdefs = local_defs(rt)
        st = [n for n in ast.walk(rt) if isinstance(n, ast.Dict) and any(source.is_const(k, "service_time") for k in n.keys)]
        ok = False
        if st:
            d = dict((k.value, v) for k, v in zip(st[0].keys, st[0].values) if isinstance(k, ast.Constant))
            from sa.sym import parse_expr, rat_equal

            ok = rat_equal(source.inline_node(d["service_time"], rdefs), parse_expr(f"{cvn}.request_end - {cvn}.request_start")) \
                and all(d.get(k_) is not None and source.inline(d[k_], rdefs) == f"{cvn}.{k_}" for k_ in ("request_start", "request_end"))
        chk.ob("O18.3", "wrapper: service_time == ctx.request_end - ctx.request_start of its own context", ok, st[0] if st else rt, "")
        gr = cfg_of(rt)
        reads = [n for n in walk_body(rt) if isinstance(n, ast.Attribute) and n.attr in ("request_start", "request_end") and isinstance(n.value, ast.Name) and n.value.id == cvn]
        ok = bool(reads) and bool(dels) and all(gr.dominated_by_nodes(gr.node_of(r), [gr.node_of(dels[0])]) for r in reads)
        chk.ob("O18.3", "wrapper: timings read after the delegate returned", ok, reads[0] if reads else rt, "")
    CO = run_.cls("Composite")
    rs = run_.methods(CO).get("run_stream")
    if rs is None:
        raise AnchorMissing("Composite.run_stream")
    rf = [n for n in walk_body(rs) if isinstance(n, ast.Call) and last_attr(n.func) == "runner_for"]
    ok = bool(rf) and all(isinstance(source.parent(n), ast.Call) and last_attr(source.parent(n).func) == "RequestTiming" for n in rf)
    chk.ob("O18.3", "composite: every dispatched sub-request runner is wrapped in the timing wrapper", ok, rf[0] if rf else rs, f"{len(rf)} dispatch site(s)")
    cc = run_.methods(CO).get("__call__")
    ok = cc is not None and any(isinstance(n, ast.Call) and last_attr(n.func) == "run_stream" for n in walk_body(cc))
    chk.ob("O18.3", "composite runs its streams from __call__", ok, cc if cc is not None else CO, "")
    # O18.4 advisory: concurrent streams as tasks created in the composite's context
    ct = [n for n in walk_body(rs) if isinstance(n, ast.Call) and dotted(n.func) == "asyncio.create_task"]
    if not ct:
        chk.adv("O18.4", "composite streams are no longer started with asyncio.create_task inside run_stream (context chaining to the request's dict not established this way)", rs)


from sa.selftest import V  # noqa: E402

_MIN = "            meta[\"request_start\"] = new_request_start if current is None else min(current, new_request_start)"
_MAX = "            meta[\"request_end\"] = new_request_end if current is None else max(current, new_request_end)"
VARIANTS = [
    V("F7: first-start-wins", "break", _C, "        if new_request_start is not None:\n            current = meta.get(\"request_start\")\n" + _MIN, "        if \"request_start\" not in meta:\n            meta[\"request_start\"] = new_request_start", "O18.1"),
    V("F7: last-end-wins", "break", _C, "        if new_request_end is not None:\n            current = meta.get(\"request_end\")\n" + _MAX, "        meta[\"request_end\"] = new_request_end", "O18.1"),
    V("seed C04-m3: start merged with max", "break", _C, _MIN, _MIN.replace("min(", "max("), "O18.1"),
    V("None not ignored for the end", "break", _C, "        if new_request_end is not None:\n            current", "        if True:\n            current", "O18.1"),
    V("end not propagated", "break", _C, "            self.ctx_holder.update_request_end(self.request_end)\n", "", "O18.1"),
    V("module-level dict instead of ContextVar value", "break", _C, "        ctx = {}\n        token = cls.request_context.set(ctx)", "        ctx = _SHARED\n        token = cls.request_context.set(ctx)", "O18.2"),
    V("propagate even without parent", "break", _C, "        if self.token.old_value != contextvars.Token.MISSING:", "        if True:", "O18.2"),
    V("propagate before restore", "break", _C, "        self.ctx_holder.restore_context(self.token)\n        # don't attempt", "        # don't attempt", "O18.2"),
    V("__exit__ swallows", "break", _C, "        self.token = None\n        return False", "        self.token = None\n        return True", "O18.2"),
    V("runner outside the context", "break", _D, "                with self.es[\"default\"].new_request_context() as request_context:\n                    total_ops, total_ops_unit, request_meta_data = await execute_single(runner, self.es, params, self.on_error)\n                    request_start",
      "                total_ops, total_ops_unit, request_meta_data = await execute_single(runner, self.es, params, self.on_error)\n                with self.es[\"default\"].new_request_context() as request_context:\n                    request_start", "O18.3"),
    V("wrapper reads times before the delegate", "break", _R, "        with es[\"default\"].new_request_context() as request_context:\n            return_value = await self.delegate(es, params)\n", "        with es[\"default\"].new_request_context() as request_context:\n            start = request_context.request_start\n            return_value = await self.delegate(es, params)\n", "O18.3"),
    V("composite dispatch unwrapped", "break", _R, "                    runner = RequestTiming(runner_for(op_type))", "                    runner = runner_for(op_type)", "O18.3"),
    # preserving
    V("min via guarded assignment", "keep", _C, _MIN, "            if current is None or new_request_start < current:\n                meta[\"request_start\"] = new_request_start"),
    V("max via conditional expression", "keep", _C, _MAX, "            meta[\"request_end\"] = new_request_end if current is None else (new_request_end if new_request_end > current else current)"),
    V("is not MISSING", "keep", _C, "        if self.token.old_value != contextvars.Token.MISSING:", "        if self.token.old_value is not contextvars.Token.MISSING:"),
]
