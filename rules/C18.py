"""C18 — request timings span all sub-requests and never leak between clients (DESIGN.md section 4, C18)."""
from __future__ import annotations

import ast

from sa import pat, source
from sa.cfg import cfg_of, guards
from sa.classes import is_logging_stmt
from sa.minieval import CannotEval, Record, ev
from sa.source import AnchorMissing, dotted, is_self_attr, last_attr, local_defs, params_of, short, u, walk_body

_C = "esrally/client/context.py"
_R = "esrally/driver/runner.py"
_D = "esrally/driver/driver.py"


_ABSENT = object()
_RAISED = object()  # the code under analysis raises for this input
_MISSING = object()  # stands for contextvars.Token.MISSING
_KEYS = ("request_start", "request_end")  # keys of the context dict == public properties of the context manager (read by the executor and by the composite's wrapper)
_MARK = {"request_start": 11.0, "request_end": 22.0}  # a distinct marker value per key: "which key does this expression read" is decided by evaluating it


class _Stuck(Exception):
    """the abstract run of a holder method left the interpreted fragment: the shape is not recognised (never a verdict)"""


class _Raises(Exception):
    """the code under analysis itself raises for this input (e.g. min(5.0, None), a missing key)"""


class _Return(Exception):
    def __init__(self, value):
        super().__init__()
        self.value = value


class _Defect(Exception):
    """a scenario run over the analysed code has located a construct that is wrong (the text says what)"""


class _Break(Exception):
    pass


class _Continue(Exception):
    pass


class _OtherClock:
    """a reading of a clock other than the monotonic perf_counter: never equal to a perf_counter reading"""

    def __init__(self, name):
        self.name = name

    def __repr__(self):
        return f"<{self.name}()>"


def _ev(e, env):
    """sa.minieval.ev; any Python-level failure on a value the evaluator does not expect is 'cannot be evaluated' as well (never an exception of the checker)"""
    try:
        return ev(e, env)
    except CannotEval:
        raise
    except (TypeError, ValueError, KeyError, IndexError, AttributeError, RecursionError) as x:
        raise CannotEval(f"{short(e, 50)}: {type(x).__name__}")


def _context_var(cls) -> str | None:
    """name of the class-level ContextVar of the holder class (role: the attribute assigned from ContextVar(...))"""
    for n in getattr(cls, "body", []):
        if isinstance(n, ast.Assign) and isinstance(n.value, ast.Call) and last_attr(n.value.func) == "ContextVar" and isinstance(n.targets[0], ast.Name):
            return n.targets[0].id
    return None


def _is_ctx_get(e, cv) -> bool:
    """`<...>.<cv>.get()`: the current context's dict (a zero-argument get() is never dict.get)"""
    return isinstance(e, ast.Call) and not e.args and not e.keywords and isinstance(e.func, ast.Attribute) and e.func.attr == "get" and isinstance(e.func.value, ast.Attribute) \
        and (cv is None or e.func.value.attr == cv)


def _cv_calls(f, cv, attr) -> list:
    """calls `<...>.<cv>.<attr>(...)` in the body of f (attr: set / reset / get)"""
    return [n for n in walk_body(f) if isinstance(n, ast.Call) and isinstance(n.func, ast.Attribute) and n.func.attr == attr and isinstance(n.func.value, ast.Attribute)
            and n.func.value.attr == cv]


_BUILTIN_FUNCS = {"min": min, "max": max}
_DICT_MUTATORS = ("setdefault", "update", "pop", "clear")


class _Obj(Record):
    """a mutable object of a class of the analysed module (the request context manager, the holder, a reset token): .fields are its instance attributes, .cls its class"""

    def __init__(self, cls, **fields):
        super().__init__(**fields)
        self.cls = cls

    def __repr__(self):
        return f"<{getattr(self.cls, 'name', 'token')} object>"


class _Interp:
    """Abstract run of methods of the request context holder on ONE context dict (no repository code is executed: the statements are interpreted here, expressions by sa.minieval).
    Interpreted: assignments to locals / to keys of a dict, if, return, pass, assert, logging statements, calls of other methods of the same class (arguments bound to parameters,
    also function-valued ones: the builtins min / max handed on as a value, through a parameter or a table), dict.setdefault / update / pop, conditional expressions and and / or
    (lazily), the current-context read `<cv>.get()` (-> the context dict) and clock reads (time.perf_counter() -> the virtual reading `clock`, any other clock -> a value that
    equals nothing else). Anything else raises _Stuck; an input for which the analysed code would raise gives _Raises."""

    def __init__(self, cls, state: dict, clock=None):
        self.cls = cls
        self.methods = {n.name: n for n in cls.body if isinstance(n, source.FUNC_TYPES)}
        self.cv = _context_var(cls)
        self.mod = getattr(cls, "_module", None)
        self.modfuncs = {n.name: n for n in (self.mod.tree.body if self.mod is not None else []) if isinstance(n, ast.FunctionDef)}
        self.ctxd = dict(state)
        self.clock = clock
        self.globals: dict = {}  # module-level names every interpreted function sees (bound by a subclass)
        self.stores: list = []  # (assignment node, key) of every executed store into the context dict
        self.depth = 0
        self.k = 0
        self.stmt = None  # the statement of the analysed source that is being interpreted (expressions are evaluated on re-parsed copies)

    # -- roles of sub-expressions ------------------------------------------------------------------------------------------
    def _clock_name(self, n) -> str | None:
        d = dotted(n.func) if isinstance(n, ast.Call) else None
        if d is None:
            return None
        head, _, rest = d.partition(".")
        full = self.mod.imports.get(head) if self.mod is not None else None
        if full:
            d = full + ("." + rest if rest else "")
        return d if d.startswith("time.") else None

    def _helper(self, n, env):
        f = n.func
        if isinstance(f, ast.Attribute) and isinstance(f.value, ast.Name) and f.value.id in ("cls", "self", self.cls.name) and f.value.id not in env and f.attr in self.methods:
            return self.methods[f.attr]
        if isinstance(f, ast.Name) and f.id not in env and f.id in self.modfuncs:  # a module-level function of the holder's module
            return self.modfuncs[f.id]
        return None

    def _callee_value(self, n, env):
        """the builtin the call n invokes when its callee is a function VALUE (a name bound to min / max, a parameter, a table lookup, a conditional expression), else None"""
        f = n.func
        if isinstance(f, ast.Name):
            v = env.get(f.id, _BUILTIN_FUNCS.get(f.id)) if f.id in env or f.id in _BUILTIN_FUNCS else None
            return v if any(v is b for b in _BUILTIN_FUNCS.values()) else None
        if isinstance(f, (ast.Subscript, ast.IfExp)) or (isinstance(f, ast.Call) and isinstance(f.func, ast.Attribute) and f.func.attr == "get"):
            return "evaluate"
        return None

    def _special(self, n, env) -> bool:
        if isinstance(n, (ast.IfExp, ast.BoolOp)):
            return True
        if isinstance(n, ast.Name):
            return n.id in _BUILTIN_FUNCS and n.id not in env and isinstance(n.ctx, ast.Load)
        if isinstance(n, ast.Call):
            return _is_ctx_get(n, self.cv) or self._clock_name(n) is not None or self._helper(n, env) is not None or self._callee_value(n, env) is not None \
                or (isinstance(n.func, ast.Attribute) and n.func.attr in _DICT_MUTATORS)
        return False

    # -- expressions -------------------------------------------------------------------------------------------------------------
    def val(self, e, env):
        return self._val(source.clone(e), env)

    def _args(self, n, env):
        if any(isinstance(a, ast.Starred) for a in n.args) or any(k.arg is None for k in n.keywords):
            raise _Stuck(f"star-arguments in {short(n, 50)}")
        return [self._val(a, env) for a in n.args], {k.arg: self._val(k.value, env) for k in n.keywords}

    def _val(self, n, env):
        if isinstance(n, ast.IfExp):
            return self._val(n.body if self._val(n.test, env) else n.orelse, env)
        if isinstance(n, ast.BoolOp):
            r = isinstance(n.op, ast.And)
            for v in n.values:
                r = self._val(v, env)
                if bool(r) != isinstance(n.op, ast.And):
                    return r
            return r
        if isinstance(n, ast.Name) and self._special(n, env):
            return _BUILTIN_FUNCS[n.id]
        if isinstance(n, ast.Call) and self._special(n, env):
            return self._call(n, env)
        # generic: every maximal special sub-expression is evaluated here (eagerly, as Python does for operands / arguments) and handed to minieval as a bound name
        interp, env2 = self, dict(env)

        class T(ast.NodeTransformer):
            def visit(self, x):
                if interp._special(x, env):
                    interp.k += 1
                    nm = f"__v{interp.k}__"
                    env2[nm] = interp._val(x, env)
                    return ast.copy_location(ast.Name(id=nm, ctx=ast.Load()), x)
                return self.generic_visit(x)

        m = T().generic_visit(n)
        try:
            return ev(ast.fix_missing_locations(m), env2)
        except CannotEval as x:
            msg = str(x)
            if "not supported between" in msg or msg.endswith(": KeyError") or msg.endswith(": TypeError"):
                raise _Raises(msg)
            raise _Stuck(msg)
        except (TypeError, ValueError, AttributeError) as x:  # a value minieval does not expect (a function value, a foreign clock reading) in an operator position
            raise _Stuck(f"{short(n, 50)}: {type(x).__name__}")

    def current(self):
        """the dict `<cv>.get()` yields"""
        return self.ctxd

    def _call(self, n, env):
        if _is_ctx_get(n, self.cv):
            return self.current()
        ck = self._clock_name(n)
        if ck is not None:
            if n.args or n.keywords:
                raise _Stuck(f"clock read with arguments {short(n, 40)}")
            if ck != "time.perf_counter":
                return _OtherClock(ck)
            if self.clock is None:
                raise _Stuck("clock read in a run without a virtual clock")
            return self.clock
        h = self._helper(n, env)
        if h is not None:
            a, kw = self._args(n, env)
            return self.invoke(h, a, kw)
        if isinstance(n.func, ast.Attribute) and n.func.attr in _DICT_MUTATORS:
            recv = self._val(n.func.value, env)
            a, kw = self._args(n, env)
            if not isinstance(recv, dict):
                raise _Stuck(f"{short(n, 50)}: receiver is not a dict")
            before = dict(recv)
            try:
                r = getattr(recv, n.func.attr)(*a, **kw)
            except KeyError as x:
                raise _Raises(f"{short(n, 50)}: KeyError {x}")
            except (TypeError, ValueError) as x:
                raise _Stuck(f"{short(n, 50)}: {type(x).__name__}")
            if recv is self.ctxd:
                self.stores += [(self.stmt if self.stmt is not None else n, k) for k in recv if k not in before or before[k] is not recv[k]]
            return r
        cv = self._callee_value(n, env)
        if cv == "evaluate":
            cv = self._val(n.func, env)
            if not any(cv is b for b in _BUILTIN_FUNCS.values()):
                raise _Stuck(f"call of a computed callee {short(n, 50)}")
        a, kw = self._args(n, env)
        if kw:
            raise _Stuck(f"keyword arguments in {short(n, 50)}")
        try:
            return cv(*a)
        except (TypeError, ValueError) as x:
            raise _Raises(f"{short(n, 50)}: {type(x).__name__}")

    # -- statements -----------------------------------------------------------------------------------------------------------------
    def invoke(self, f, argvals, kwvals=None, this=_ABSENT):
        """run f on argument values; `this`: the object an instance method is invoked on (its first parameter is bound to it; without it - and for a classmethod - the first
        parameter stays unbound: calls through it are recognised as calls of methods of the class)"""
        names = params_of(f)
        deco = {last_attr(d.func if isinstance(d, ast.Call) else d) for d in f.decorator_list}
        receiver = None
        if "staticmethod" not in deco and names and isinstance(source.parent(f), ast.ClassDef):
            receiver, names = (names[0] if this is not _ABSENT and "classmethod" not in deco else None), names[1:]
        kwonly = [a.arg for a in f.args.kwonlyargs]
        if len(argvals) > len(names) or f.args.vararg is not None or f.args.kwarg is not None:
            raise _Stuck(f"arguments of {f.name} cannot be bound")
        env = dict(self.globals)
        for nm in params_of(f) + kwonly:
            env.pop(nm, None)
        env.update(zip(names, argvals))
        if receiver is not None:
            env[receiver] = this
        for k, v in (kwvals or {}).items():
            if k in env or k not in names + kwonly:
                raise _Stuck(f"argument {k} of {f.name} cannot be bound")
            env[k] = v
        allpos = params_of(f)
        for nm, d in zip(allpos[len(allpos) - len(f.args.defaults):], f.args.defaults):
            if nm in names and nm not in env:
                env[nm] = self.val(d, {})
        for a, d in zip(f.args.kwonlyargs, f.args.kw_defaults):
            if a.arg not in env and d is not None:
                env[a.arg] = self.val(d, {})
        missing = [nm for nm in names + kwonly if nm not in env]
        if missing:
            raise _Stuck(f"{f.name}: no value for parameter(s) {missing}")
        self.depth += 1
        if self.depth > 6:
            raise _Stuck("helper calls nested deeper than 6")
        try:
            self.block(f.body, env)
            return None
        except _Return as r:
            return r.value
        finally:
            self.depth -= 1

    def block(self, stmts, env):
        for s in stmts:
            if is_logging_stmt(s) or isinstance(s, ast.Pass) or (isinstance(s, ast.Expr) and isinstance(s.value, ast.Constant)):
                continue
            self.stmt = s
            if isinstance(s, ast.If):
                self.block(s.body if self.val(s.test, env) else s.orelse, env)
            elif isinstance(s, ast.Return):
                raise _Return(self.val(s.value, env) if s.value is not None else None)
            elif isinstance(s, ast.Raise):
                raise _Raises(short(s, 60))
            elif isinstance(s, ast.Assert):
                if not self.val(s.test, env):
                    raise _Raises(short(s, 60))
            elif isinstance(s, ast.Expr) and isinstance(s.value, ast.Call) and self._special(s.value, env):
                self.val(s.value, env)
            elif isinstance(s, ast.Assign) or (isinstance(s, ast.AnnAssign) and s.value is not None):
                v = self.val(s.value, env)
                for t in (s.targets if isinstance(s, ast.Assign) else [s.target]):
                    self.assign(t, v, env, s)
            elif isinstance(s, ast.AnnAssign):
                continue  # a bare declaration
            elif isinstance(s, ast.Try):
                try:
                    try:
                        self.block(s.body, env)
                    except _Raises as x:
                        if s.handlers:  # (the class of the exception is not modelled: which handler would take it cannot be told)
                            raise _Stuck(f"an exception inside a try statement with handlers ({x})")
                        raise
                    self.block(s.orelse, env)
                finally:
                    self.block(s.finalbody, env)
            elif isinstance(s, ast.For):
                it = self.val(s.iter, env)
                if not isinstance(it, (list, tuple, dict, set, frozenset)):
                    raise _Stuck(f"loop over {short(s.iter, 40)}")
                done = True
                for x in list(it):
                    self.assign(s.target, x, env, s)
                    try:
                        self.block(s.body, env)
                    except _Continue:
                        continue
                    except _Break:
                        done = False
                        break
                if done:
                    self.block(s.orelse, env)
            elif isinstance(s, ast.Break):
                raise _Break()
            elif isinstance(s, ast.Continue):
                raise _Continue()
            else:
                raise _Stuck(f"statement {short(s, 60)}")

    def assign(self, t, v, env, s):
        """bind the value v to the target t of statement s: a local, a key of a dict, an attribute of an object of the analysed module, a tuple of such"""
        if isinstance(t, ast.Name):
            env[t.id] = v
        elif isinstance(t, (ast.Tuple, ast.List)):
            if any(isinstance(x, ast.Starred) for x in t.elts) or not isinstance(v, (tuple, list)) or len(v) != len(t.elts):
                raise _Stuck(f"unpacking {short(s, 60)}")
            for x, y in zip(t.elts, v):
                self.assign(x, y, env, s)
        elif isinstance(t, ast.Subscript):
            d, k = self.val(t.value, env), self.val(t.slice, env)
            if not isinstance(d, dict):
                raise _Stuck(f"store into {u(t.value)}")
            try:
                d[k] = v
            except TypeError:
                raise _Stuck(f"store under an unhashable key in {short(s, 60)}")
            if d is self.ctxd:
                self.stores.append((s, k))
        elif isinstance(t, ast.Attribute):
            o = self.val(t.value, env)
            if not isinstance(o, _Obj):
                raise _Stuck(f"store into an attribute of {u(t.value)}")
            o.fields[t.attr] = v
        else:
            raise _Stuck(f"statement {short(s, 60)}")


def run_holder(func, args, state: dict, clock=None) -> _Interp:
    """Abstract run of the holder method `func` with positional argument VALUES `args` on a copy of the context dict `state` (virtual perf_counter reading `clock`); returns the
    interpreter (its .ctxd is the dict afterwards, .stores the executed stores). Raises _Stuck (shape not recognised) / _Raises (the analysed code raises for this input)."""
    it = _Interp(source.enclosing_class(func), state, clock)
    it.invoke(func, list(args))
    return it


def _value_params(func) -> list | None:
    """parameters of a holder method that a caller must supply (self / cls and parameters with a default aside)"""
    ps = params_of(func)
    deco = {last_attr(d.func if isinstance(d, ast.Call) else d) for d in func.decorator_list}
    if "staticmethod" not in deco and ps and isinstance(source.parent(func), ast.ClassDef):
        ps = ps[1:]
    nd = len(func.args.defaults)
    return ps[: len(ps) - nd] if nd else ps


_REF = {"min": lambda c, n: n if c is _ABSENT else min(c, n), "max": lambda c, n: n if c is _ABSENT else max(c, n), "first": lambda c, n: n if c is _ABSENT else c, "last": lambda c, n: n}
_CUR = (_ABSENT, 0.0, 5.0)  # reachable values of the recorded time (0.0: a recorded time is not 'missing' because it is falsy)
_NEW = (0.0, 3.0, 5.0, 7.0)
_SIBLING = {"request_start": ("request_end", 6.0), "request_end": ("request_start", 4.0)}


def _states(key):
    other = _SIBLING.get(key)
    for x in [{}] + ([{other[0]: other[1]}] if other else []):
        for c in _CUR:
            yield c, dict(x, **({} if c is _ABSENT else {key: c}))


def merge_kind(func, key: str):
    """Classify how `func(new)` merges `new` into the current context's dict under `key`: 'min' | 'max' | 'first' | 'last' (the operator whose table the method reproduces),
    'other' (evaluated, but the table is none of the four), 'no-store' (evaluated, the key is never written), 'unknown' (the method could not be evaluated: shape not recognised).
    Returns (kind, none_safe, store site); none_safe is None when it could not be evaluated.
    Decided by value: the method - TOGETHER WITH the methods of its class it calls (an extracted helper gets its parameters bound to the argument values, function-valued ones
    included) - is run abstractly on every (recorded value, new value) pair of a small domain, with and without the sibling timing key present, and the resulting table is
    compared with the tables of the four operators; a missing (None) new value must leave the context observationally unchanged. The store site is the statement that was SEEN
    writing the key during these runs (wherever it lives), not a statement found by the spelling of its subscript."""
    if _value_params(func) is None or len(_value_params(func)) != 1:
        return "unknown", None, None
    kinds, stuck, store = set(_REF), None, None
    for c, st in _states(key):
        for n in _NEW:
            try:
                it = run_holder(func, [n], st)
                got = it.ctxd.get(key, _ABSENT)
                store = store or next((s for s, k in it.stores if k == key), None)
            except _Stuck as x:
                stuck = str(x)
                break
            except _Raises:
                got = _RAISED
            kinds = {k for k in kinds if got is not _ABSENT and got is not _RAISED and _REF[k](c, n) == got}
        if stuck:
            break
    none_safe = True
    for c, st in _states(key):
        try:
            after = run_holder(func, [None], st).ctxd
            same = after.get(key) == st.get(key) and all(run_holder(func, [n], after).ctxd.get(key) == run_holder(func, [n], st).ctxd.get(key) for n in (3.0, 7.0))
        except _Stuck:
            none_safe = None
            break
        except _Raises:
            same = False
        none_safe = none_safe and same
    if stuck is not None:
        return "unknown", none_safe, store
    if store is None:
        return "no-store", none_safe, None
    return (kinds.pop() if len(kinds) == 1 else "other"), none_safe, store


def apply_update(func, new_name: str, new_val, state: dict, cv=None) -> dict:
    """the context dict after the abstract run of the one-value holder method `func` on a copy of `state` (kept for callers of the former interface)"""
    return run_holder(func, [new_val], state).ctxd


def _ldefs(func) -> dict:
    """source.local_defs plus the names bound by a parallel assignment `a, b = x, y` (each bound exactly once in the function)"""
    defs = dict(local_defs(func))
    counts: dict = {}
    for n in walk_body(func):
        if isinstance(n, ast.Name) and isinstance(n.ctx, (ast.Store, ast.Del)):
            counts[n.id] = counts.get(n.id, 0) + 1
    for n in walk_body(func):
        if isinstance(n, ast.Assign) and len(n.targets) == 1 and isinstance(n.targets[0], ast.Tuple) and isinstance(n.value, ast.Tuple) and len(n.targets[0].elts) == len(n.value.elts):
            for t, v in zip(n.targets[0].elts, n.value.elts):
                if isinstance(t, ast.Name) and counts.get(t.id) == 1 and not isinstance(v, ast.Starred):
                    defs[t.id] = v
    return defs


# ---- roles of esrally/client/context.py, derived by data flow --------------------------------------------------------------------------------------------------------------

class _Roles:
    """RCM / RCH: the two classes; mm / hm: their methods; cv: the ContextVar; init / restore: the holder methods that set / reset it; factories: names of the holder methods
    that return a new context manager; holder_attrs: manager attributes the holder is addressed through; ctx_attr / token_attr: manager attributes that __enter__ unpacks the
    installed dict / the reset token into (by position in the tuple the init method returns); unpack: that assignment."""


def _init_shape(f, cv):
    """(position of the installed dict, position of the reset token) in the tuple the init method returns, the set call, the installed value - None positions if the returned
    element is not the very local that was installed / not the result of the set call"""
    sets = _cv_calls(f, cv, "set")
    rets = [n for n in walk_body(f) if isinstance(n, ast.Return)]
    if len(sets) != 1 or len(rets) != 1 or not isinstance(rets[0].value, ast.Tuple):
        return None, None, (sets[0] if len(sets) == 1 else None)
    defs = local_defs(f)
    setc = sets[0]
    arg = setc.args[0] if len(setc.args) == 1 else None
    pos_d = pos_t = None
    for i, e in enumerate(rets[0].value.elts):
        root, hops = e, 0
        while isinstance(root, ast.Name) and root.id in defs and hops < 10:
            root, hops = defs[root.id], hops + 1
        if root is setc:
            pos_t = i
        elif isinstance(arg, ast.Name) and arg.id in defs and isinstance(e, ast.Name) and (e.id == arg.id or (isinstance(defs.get(e.id), ast.Name) and defs[e.id].id == arg.id)):
            pos_d = i
    return pos_d, pos_t, setc


def context_roles(ctx) -> _Roles:
    R = getattr(ctx, "_c18_roles", None)
    if R is not None:
        return R
    R = _Roles()
    R.mod = ctx
    R.RCM, R.RCH = ctx.cls("RequestContextManager"), ctx.cls("RequestContextHolder")
    R.mm, R.hm = ctx.methods(R.RCM), ctx.methods(R.RCH)
    R.cv = _context_var(R.RCH)
    if R.cv is None:
        raise AnchorMissing("RequestContextHolder: no class-level ContextVar")
    R.init = [f for f in R.hm.values() if _cv_calls(f, R.cv, "set")]
    R.restore = [f for f in R.hm.values() if _cv_calls(f, R.cv, "reset")]
    R.factories = {nm for nm, f in R.hm.items() for n in walk_body(f) if isinstance(n, ast.Return) and n.value is not None
                   and isinstance(source.inline_node(n.value, local_defs(f)), ast.Call) and last_attr(source.inline_node(n.value, local_defs(f)).func) == R.RCM.name}
    R.holder_attrs = {c.func.value.attr for f in R.mm.values() for c in source.calls_in(f) if isinstance(c.func, ast.Attribute) and is_self_attr(c.func.value) and c.func.attr in R.hm}
    R.unpack = R.ctx_attr = R.token_attr = None
    R.init_pos = (None, None)
    ent = R.mm.get("__enter__")
    if ent is not None and len(R.init) == 1:
        for n in walk_body(ent):
            if isinstance(n, ast.Assign) and len(n.targets) == 1:
                v = source.inline_node(n.value, local_defs(ent))
                if isinstance(v, ast.Call) and isinstance(v.func, ast.Attribute) and v.func.attr == R.init[0].name and is_self_attr(v.func.value) and v.func.value.attr in R.holder_attrs:
                    R.unpack = n
        pos_d, pos_t, _ = _init_shape(R.init[0], R.cv)
        R.init_pos = (pos_d, pos_t)
        if pos_d is None and pos_t in (0, 1):
            pos_d = 1 - pos_t  # for the ROLE of the manager's attributes the other element stands for the dict (that it is not the installed one is O18.2's finding)
        t = R.unpack.targets[0] if R.unpack is not None else None
        if isinstance(t, ast.Tuple) and pos_d is not None and pos_t is not None and len(t.elts) == 2:
            if is_self_attr(t.elts[pos_d]):
                R.ctx_attr = t.elts[pos_d].attr
            if is_self_attr(t.elts[pos_t]):
                R.token_attr = t.elts[pos_t].attr
        elif isinstance(t, ast.Name) and pos_d is not None and pos_t is not None and local_defs(ent).get(t.id) is R.unpack.value:
            # the pair is kept in a local and taken apart by position: `pair = init(); self.a = pair[0]; self.b = pair[1]`
            for n in walk_body(ent):
                if isinstance(n, ast.Assign) and len(n.targets) == 1 and is_self_attr(n.targets[0]) and isinstance(n.value, ast.Subscript) and isinstance(n.value.value, ast.Name) \
                        and n.value.value.id == t.id and source.is_const(n.value.slice) and type(n.value.slice.value) is int:
                    if n.value.slice.value in (pos_d, pos_d - 2):
                        R.ctx_attr = n.targets[0].attr
                    elif n.value.slice.value in (pos_t, pos_t - 2):
                        R.token_attr = n.targets[0].attr
    ctx._c18_roles = R
    return R


def _need(R, *names):
    for nm in names:
        if getattr(R, nm, None) in (None, [], set()):
            raise AnchorMissing(f"{_C}: role '{nm}' of the request context classes could not be derived (init method that sets the ContextVar / __enter__ unpacking its result / "
                                "holder calls of the manager)")


# ---- the life cycle of request contexts, run abstractly: factory -> __init__ -> __enter__ -> (wire requests) -> __exit__, on OBJECTS (identity matters) --------------------------

class _Life(_Interp):
    """_Interp over the two classes of the context module TOGETHER: manager and holder objects are _Obj values (instance attributes are stored and read, methods of either class
    are invoked on them with `self` bound, properties are evaluated, `Manager(...)` runs __init__), and the ContextVar is modelled for ONE asyncio task at a time:
    .cur is its value in the task that is running (_MISSING: never set), `<cv>.set(v)` installs v and yields a token remembering the previous value, `<cv>.reset(token)` restores
    it, `<cv>.get()` raises (LookupError) when nothing is installed. A scenario switches tasks by swapping .cur (a new task starts with a COPY of its creator's context: the
    same dict object). .installed lists every object handed to set(), in order. Nothing of the repository is executed."""

    def __init__(self, R):
        super().__init__(R.RCH, {})
        self.R = R
        self.cur = _MISSING
        self.installed: list = []
        self.by_class = {R.RCM.name: R.RCM, R.RCH.name: R.RCH}
        self._meths = {R.RCM.name: R.mm, R.RCH.name: R.hm}
        self.holder = _Obj(R.RCH)
        for name, target in R.mod.imports.items():
            if target == "contextvars":
                self.globals[name] = Record(Token=Record(MISSING=_MISSING))
            elif target == "contextvars.Token":
                self.globals[name] = Record(MISSING=_MISSING)
            elif target == "contextvars.Token.MISSING":
                self.globals[name] = _MISSING

    # the one-dict interface of _Interp: "the context dict" is whatever is installed in the running task
    @property
    def ctxd(self):
        return self.cur if isinstance(self.cur, dict) else None

    @ctxd.setter
    def ctxd(self, v):
        pass

    def current(self):
        if self.cur is _MISSING:
            raise _Raises("LookupError: no request context is installed in this task")
        return self.cur

    # -- roles of sub-expressions ------------------------------------------------------------------------------------------------------------
    def _cv_op(self, n):
        f = n.func if isinstance(n, ast.Call) else None
        return f.attr if isinstance(f, ast.Attribute) and f.attr in ("set", "reset", "get") and isinstance(f.value, ast.Attribute) and f.value.attr == self.cv else None

    @staticmethod
    def _rooted_in_object(e, env) -> bool:
        while isinstance(e, ast.Attribute):
            e = e.value
        return isinstance(e, ast.Name) and isinstance(env.get(e.id), _Obj)

    def _method(self, obj, name):
        return self._meths.get(getattr(obj.cls, "name", None), {}).get(name) if isinstance(obj, _Obj) else None

    def _property(self, n, env):
        """(object, property function) if the attribute load n reads a property of an object bound in env"""
        if isinstance(n, ast.Attribute) and isinstance(n.ctx, ast.Load) and isinstance(n.value, ast.Name) and isinstance(env.get(n.value.id), _Obj):
            o = env[n.value.id]
            f = self._method(o, n.attr)
            if f is not None and n.attr not in o.fields and "property" in {last_attr(d) for d in f.decorator_list}:
                return o, f
        return None

    def _special(self, n, env) -> bool:
        if isinstance(n, ast.Attribute):
            return self._property(n, env) is not None
        if isinstance(n, ast.Call):
            if self._cv_op(n) is not None:
                return True
            if isinstance(n.func, ast.Name) and n.func.id not in env and (n.func.id in self.by_class or n.func.id == "dict"):
                return True
            if isinstance(n.func, ast.Attribute) and self._rooted_in_object(n.func.value, env):
                return True
        return super()._special(n, env)

    def _val(self, n, env):
        p = self._property(n, env)
        if p is not None:
            return self.invoke(p[1], [], this=p[0])
        return super()._val(n, env)

    def _call(self, n, env):
        op = self._cv_op(n)
        if op == "get" and not n.args and not n.keywords:
            return self.current()
        if op is not None:
            a, kw = self._args(n, env)
            if kw or len(a) != 1:
                raise _Stuck(f"arguments of {short(n, 50)}")
            if op == "get":
                return a[0] if self.cur is _MISSING else self.cur
            if op == "set":
                tok = _Obj(None, old_value=self.cur)
                self.cur = a[0]
                self.installed.append(a[0])
                return tok
            if not isinstance(a[0], _Obj) or a[0].cls is not None or "old_value" not in a[0].fields:
                raise _Raises(f"{short(n, 50)}: reset with something that is not a token")
            if a[0].fields.get("used"):
                raise _Raises(f"{short(n, 50)}: RuntimeError, the token has already been used")
            a[0].fields["used"] = True
            self.cur = a[0].fields["old_value"]
            return None
        f = n.func
        if isinstance(f, ast.Name) and f.id not in env and f.id in self.by_class:
            o = _Obj(self.by_class[f.id])
            a, kw = self._args(n, env)
            init = self._method(o, "__init__")
            if init is not None:
                self.invoke(init, a, kw, this=o)
            elif a or kw:
                raise _Stuck(f"{short(n, 50)}: constructor arguments without an __init__")
            return o
        if isinstance(f, ast.Name) and f.id not in env and f.id == "dict":
            a, kw = self._args(n, env)
            try:
                return dict(*a, **kw)
            except (TypeError, ValueError) as x:
                raise _Raises(f"{short(n, 50)}: {type(x).__name__}")
        if isinstance(f, ast.Attribute) and self._rooted_in_object(f.value, env):
            recv = self._val(f.value, env)
            m = self._method(recv, f.attr)
            if m is not None:
                if "property" in {last_attr(d) for d in m.decorator_list}:
                    raise _Stuck(f"call of the value of a property {short(n, 50)}")
                a, kw = self._args(n, env)
                return self.invoke(m, a, kw, this=recv)
            if isinstance(recv, dict) and f.attr in ("get", "copy"):
                a, kw = self._args(n, env)
                try:
                    return getattr(recv, f.attr)(*a, **kw)
                except TypeError as x:
                    raise _Raises(f"{short(n, 50)}: {type(x).__name__}")
            if isinstance(recv, dict) and f.attr in _DICT_MUTATORS:
                return super()._call(n, env)
            if recv is None:
                raise _Raises(f"{short(n, 50)}: AttributeError on None")
            raise _Stuck(f"call {short(n, 50)}")
        return super()._call(n, env)

    # -- what a scenario does ------------------------------------------------------------------------------------------------------------------
    def send(self, obj, name, *args):
        f = self._method(obj, name)
        if f is None:
            raise _Stuck(f"{obj!r} has no method {name}")
        return self.invoke(f, list(args), this=obj)

    def read(self, obj, name):
        """obj.<name>: an instance attribute or a property"""
        if not isinstance(obj, _Obj):
            raise _Stuck(f"`.{name}` is read from {obj!r}, which is no object of the context module")
        if name in obj.fields:
            return obj.fields[name]
        f = self._method(obj, name)
        if f is None or "property" not in {last_attr(d) for d in f.decorator_list}:
            raise _Stuck(f"{obj!r} has no attribute / property {name}")
        return self.invoke(f, [], this=obj)

    def open(self, manager=None):
        """enter a request context in the running task - through `manager` if given, else through a new manager from the holder's factory;
        returns (manager, what `with ... as` binds, the installed dict, a copy of what it held when it was installed)"""
        if manager is None:
            manager = self.send(self.holder, sorted(self.R.factories)[0])
        if not isinstance(manager, _Obj):
            raise _Stuck("the context factory does not return a context manager object")
        n = len(self.installed)
        bound = self.send(manager, "__enter__")
        if len(self.installed) == n:
            raise _Defect("entering the request context (again) installs nothing: the request runs in no context of its own")
        if not isinstance(self.cur, dict):
            raise _Stuck("__enter__ has installed something that is no dict")
        return manager, bound, self.cur, dict(self.cur)

    def close(self, manager, failed=False):
        return self.send(manager, "__exit__", *(("ExcType", "exc", "tb") if failed else (None, None, None)))

    def timings(self, bound):
        return self.read(bound, "request_start"), self.read(bound, "request_end")


def _wire(R):
    """(record_start(life, t), record_end(life, t)): what the client's trace hooks do for a wire request in the running task, through the holder's merge methods (located by value)"""
    ms, me = _merge_by_value(R.hm, "request_start"), _merge_by_value(R.hm, "request_end")
    if ms is None or me is None:
        raise AnchorMissing("RequestContextHolder: the one-value methods that record a wire request's start / end were not located")
    return (lambda life, t: life.invoke(ms, [t])), (lambda life, t: life.invoke(me, [t]))


def _no_timings(d: dict) -> bool:
    return all(d.get(k) is None for k in _KEYS)


def consecutive_requests(R, reuse_manager: bool):
    """Two requests of ONE client, one after the other, as the executor's loop opens them (reuse_manager: the context manager object is created once and entered again for the
    second request; else a new one per request). Request 1 (wire 1.0 .. 2.0) has spawned a sub-request task - a stream of a composite - that is still in flight when request 1
    ends (a sibling failed, on-error=continue): that task holds request 1's dict in its copy of the context and records 1.5 .. 5.5 into it while request 2 (wire 5.0 .. 6.0) runs.
    Returns the first defect as a text, or None: request 2 must run on a dict object of its own, empty of timings when installed, and be recorded with 5.0 .. 6.0.
    Raises _Stuck / _Raises."""
    how = "the context manager is created once per client and entered again" if reuse_manager else "a new context manager per request"
    life = _Life(R)
    start, end = _wire(R)
    m, _, d1, _ = life.open()
    start(life, 1.0)
    end(life, 2.0)
    life.close(m)
    if life.cur is not _MISSING:
        raise _Stuck("the top-level context is not restored by __exit__ (decided by other obligations)")
    try:
        m2, bound, d2, at_entry = life.open(m if reuse_manager else None)
    except _Defect as x:
        return f"{how}: {x}"
    start(life, 5.0)
    life.cur = d1  # the task left over from request 1 ends its sub-request ...
    start(life, 1.5)
    end(life, 5.5)
    life.cur = d2  # ... and the client's task goes on
    end(life, 6.0)
    got = life.timings(bound)
    life.close(m2)
    if d2 is d1:
        return (f"{how}: the second request runs on the SAME dict object as the first - a sub-request task of request 1 that ends late (1.5 .. 5.5) is booked on request 2, "
                f"recorded with {got[0]} .. {got[1]} instead of 5.0 .. 6.0")
    if not _no_timings(at_entry):
        return f"{how}: the dict installed for the second request already holds timings ({at_entry})"
    if got != (5.0, 6.0):
        return f"{how}: the second request (wire 5.0 .. 6.0) is recorded with {got[0]} .. {got[1]}"
    return None


def nested_and_concurrent_requests(R):
    """A top-level request context (wire 2.0 .. 3.0) with a nested sub-request (wire 4.0 .. 7.0), then two sub-requests in tasks of their own (each a copy of the top-level
    context) of which the one that started later (9.0 .. 10.0) ends before the one that started earlier (8.0 .. 12.0). Every context is opened through a new manager from the
    factory. Returns the first defect as a text, or None: every entry installs a dict object of its own, empty of timings; each sub-request reads exactly its own span; the
    top-level context reads the span of everything (2.0 .. 12.0). Raises _Stuck / _Raises."""
    life = _Life(R)
    start, end = _wire(R)
    top, tb, d0, _ = life.open()
    start(life, 2.0)
    end(life, 3.0)
    inner, ib, d1, e1 = life.open()
    start(life, 4.0)
    end(life, 7.0)
    got1 = life.timings(ib)
    life.close(inner)
    if life.cur is not d0:
        raise _Stuck("the enclosing context is not restored by __exit__ (decided by other obligations)")
    # two streams: tasks A and B start with a copy of the top-level task's context
    cur_a = cur_b = d0
    life.cur = cur_a
    ma, ab, da, ea = life.open()
    cur_a = life.cur
    life.cur = cur_b
    mb, bb, db, eb = life.open()
    start(life, 8.0)
    cur_b = life.cur
    life.cur = cur_a
    start(life, 9.0)
    end(life, 10.0)
    got_a = life.timings(ab)
    life.close(ma, failed=True)  # (a failed stream still belongs to the logical request)
    life.cur = cur_b
    end(life, 12.0)
    got_b = life.timings(bb)
    life.close(mb)
    life.cur = d0
    got0 = life.timings(tb)
    life.close(top)
    dicts = [d0, d1, da, db]
    if any(x is y for i, x in enumerate(dicts) for y in dicts[:i]):
        return "two entries into a request context (nested / concurrent, each through a new manager) run on the same dict object"
    if not all(_no_timings(e) for e in (e1, ea, eb)):
        return f"a nested context starts with timings of its surroundings ({[e for e in (e1, ea, eb) if not _no_timings(e)][0]})"
    for name, got, want in (("the nested sub-request", got1, (4.0, 7.0)), ("the stream that started later and ended first", got_a, (9.0, 10.0)),
                            ("the stream that started earlier and ended last", got_b, (8.0, 12.0)), ("the logical request", got0, (2.0, 12.0))):
        if got != want:
            return f"{name} is recorded with {got[0]} .. {got[1]} instead of {want[0]} .. {want[1]}"
    return None


def _reached_calls(fn, R, depth=0) -> list:
    """[(call, chain)]: every call made by the manager method fn, directly or inside methods of the manager it calls as self.m(...) (an extracted helper);
    chain = the nodes leading to the call, one per function: [site in fn, ..., the call itself]"""
    out = []
    for c in source.calls_in(fn):
        out.append((c, [c]))
        if isinstance(c.func, ast.Attribute) and isinstance(c.func.value, ast.Name) and c.func.value.id == "self" and c.func.attr in R.mm and R.mm[c.func.attr] is not fn and depth < 3:
            out += [(c2, [c] + ch) for c2, ch in _reached_calls(R.mm[c.func.attr], R, depth + 1)]
    return out


def _holder_calls(fn, R) -> list:
    """[(call, chain)]: the calls `self.<holder attr>.<holder method>(...)` among the calls reached from fn"""
    return [(c, ch) for c, ch in _reached_calls(fn, R) if isinstance(c.func, ast.Attribute) and is_self_attr(c.func.value) and c.func.value.attr in R.holder_attrs and c.func.attr in R.hm]


def _restore_calls(fn, R) -> list:
    """[(call, chain)]: calls reached from fn that restore the enclosing context: the holder's restore method (the one that resets the ContextVar), or that reset spelled out
    on the holder's ContextVar (`<holder>.<cv>.reset(token)`, the restore method inlined)"""
    rn = {f.name for f in R.restore}
    return [(c, ch) for c, ch in _holder_calls(fn, R) if c.func.attr in rn] + \
        [(c, ch) for c, ch in _reached_calls(fn, R) if isinstance(c.func, ast.Attribute) and c.func.attr == "reset" and isinstance(c.func.value, ast.Attribute) and c.func.value.attr == R.cv]


def _chain_facts(chain) -> list:
    """atomic guard facts under which the last node of the chain runs (those of every call site on the way included), each seen through the single-assignment locals of its function"""
    out = []
    for x in chain:
        f = source.enclosing_func(x)
        out += [source.inline_node(t, _ldefs(f)) for t in pat.fact_nodes(x)]
    return out


def _chain_dominated(a, b) -> bool:
    """does chain b's call happen before chain a's call on every path (decided in the function where the two chains part)"""
    for x, y in zip(a, b):
        if x is y:
            continue
        g = cfg_of(source.enclosing_func(x))
        return g.dominated_by_nodes(g.node_of(x), [g.node_of(y)])
    return False


def _chain_arg(chain, e):
    """expression e of the chain's last function, seen from the chain's first function: single-assignment locals inlined, parameters of the helpers on the way bound to the
    arguments of their call sites"""
    for i in range(len(chain) - 1, -1, -1):
        f = source.enclosing_func(chain[i])
        e = source.inline_node(e, _ldefs(f))
        if i == 0:
            break
        b = source.bind_args(chain[i - 1], f)
        e = source.inline_node(e, {k: v for k, v in b.items()})
    return e


def _props_inlined(e, R, depth=0):
    """copy of e in which reads of the manager's properties (`self.<property>`) are replaced by the expression the property returns"""

    class T(ast.NodeTransformer):
        def visit_Attribute(self, n):
            self.generic_visit(n)
            f = R.mm.get(n.attr) if is_self_attr(n) else None
            if f is not None and depth < 4 and "property" in {last_attr(d) for d in f.decorator_list}:
                rets = [x for x in walk_body(f) if isinstance(x, ast.Return) and x.value is not None]
                if len(rets) == 1:
                    return _props_inlined(source.inline_node(rets[0].value, _ldefs(f)), R, depth + 1)
            return n

        def visit_Call(self, n):
            self.generic_visit(n)
            f = R.mm.get(n.func.attr) if isinstance(n.func, ast.Attribute) and isinstance(n.func.value, ast.Name) and n.func.value.id == "self" else None
            if f is not None and depth < 4 and not f.decorator_list and not any(isinstance(a, ast.Starred) for a in n.args) and all(k.arg for k in n.keywords):
                # a plain helper method of the manager that only returns an expression over its parameters (`self._timing("request_start")`): that expression
                body = [x for x in f.body if not (isinstance(x, ast.Expr) and isinstance(x.value, ast.Constant)) and not is_logging_stmt(x)]
                b = source.bind_args(n, f)
                if len(body) == 1 and isinstance(body[0], ast.Return) and body[0].value is not None and set(params_of(f)[1:]) <= set(b) and not f.args.kwonlyargs \
                        and f.args.vararg is None and f.args.kwarg is None:
                    return _props_inlined(source.inline_node(body[0].value, dict(b)), R, depth + 1)
            return n

    return T().visit(source.clone(e))


def _own_key(e, R):
    """which timing key of the manager's OWN context dict the expression e (already seen from a manager method) evaluates to - by value: the dict holds a distinct marker per
    key. None: neither; raises CannotEval if it cannot be evaluated."""
    v = _ev(_props_inlined(e, R), {"self": Record(**{R.ctx_attr: dict(_MARK)})})
    for k, m in _MARK.items():
        if isinstance(v, float) and v == m:
            return k
    return None


def _exit_env(R, ex, parent, own, exc) -> dict:
    """representative state in which __exit__ runs: `parent` is what the reset token remembers (Token.MISSING: top-level context), `own` the context's own dict, `exc` whether the
    block ended with an exception"""
    fields = {R.token_attr: Record(old_value=parent), R.ctx_attr: own}
    fields.update({p: own.get(p) for p in _KEYS if p in R.mm})
    env = {"self": Record(**fields)}
    for i, p in enumerate(params_of(ex)[1:4]):
        env[p] = (None if not exc else ("ExcType", "exc", "tb")[i])
    for name, target in R.mod.imports.items():
        if target == "contextvars":
            env[name] = Record(Token=Record(MISSING=_MISSING))
        elif target == "contextvars.Token":
            env[name] = Record(MISSING=_MISSING)
        elif target == "contextvars.Token.MISSING":
            env[name] = _MISSING
    return env


def _propagations(R):
    """(__exit__, [(call, chain)] of its propagation calls: holder calls other than the restore)"""
    ex = R.mm.get("__exit__")
    if ex is None:
        raise AnchorMissing("RequestContextManager.__exit__")
    _need(R, "holder_attrs")
    rn = {f.name for f in R.restore}
    props = [(c, ch) for c, ch in _holder_calls(ex, R) if c.func.attr not in rn]
    if not props:
        raise AnchorMissing("propagation calls in RequestContextManager.__exit__")
    return ex, props


def _context_withs(func, factories, step=None, shared_attrs=()) -> list:
    """[(with statement, item, how)]: the with statements of func that enter a request context - by data flow: the context expression, seen through single-assignment locals
    (a hoisted bound method, a context object built one line earlier), is a call of the holder's context factory - or of a plain helper (step: the _Step view of the class)
    whose returned expression is such a call - (how = 'call'), or it is an instance attribute that the function (or, shared_attrs, another function of the view) assigns such a
    call to (how = 'attr': the context object lives in state shared by all invocations)"""
    defs = local_defs(func)

    def factory_call(e, fn=func, depth=0):
        if not isinstance(e, ast.Call):
            return False
        if isinstance(e.func, ast.Attribute) and e.func.attr in factories:
            return True
        h = step.callee(e, fn) if step is not None and depth < 3 else None
        if h is not None and not isinstance(h, ast.AsyncFunctionDef):  # a helper that opens nothing itself and hands back a new context manager
            rets = [n for n in walk_body(h) if isinstance(n, ast.Return) and n.value is not None]
            return len(rets) == 1 and factory_call(source.inline_node(rets[0].value, local_defs(h)), h, depth + 1)
        return False

    attr_ctx = {u(n.targets[0]) for n in walk_body(func) if isinstance(n, ast.Assign) and isinstance(n.targets[0], ast.Attribute) and factory_call(source.inline_node(n.value, defs))}
    attr_ctx |= set(shared_attrs)
    out = []
    for n in walk_body(func):
        if isinstance(n, (ast.With, ast.AsyncWith)):
            for i in n.items:
                e = source.inline_node(i.context_expr, defs)
                if factory_call(e):
                    out.append((n, i, "call"))
                elif u(e) in attr_ctx:
                    out.append((n, i, "attr"))
    return out


def _bound_context(w, item=None) -> str:
    """the local a `with <client>.new_request_context() as V` statement binds the context object to"""
    for i in ([item] if item is not None else w.items):
        if item is not None or "new_request_context" in u(i.context_expr):
            if isinstance(i.optional_vars, ast.Name):
                return i.optional_vars.id
            raise AnchorMissing(f"request context at line {w.lineno} is not bound to a local (with ... as <name>)")
    raise AnchorMissing(f"with statement at line {w.lineno} opens no request context")


def _alias_root(e, defs):
    """the expression a pure alias chain of single-assignment locals (`x = y`) leads to"""
    hops = 0
    while isinstance(e, ast.Name) and e.id in defs and isinstance(defs[e.id], (ast.Name, ast.Attribute)) and hops < 10:
        e, hops = defs[e.id], hops + 1
    return e


def propagation_guard_rule(chk, rid, ctx):
    """RequestContextManager.__exit__ hands its start / end to the enclosing context whenever there is one — also when the block ends with an exception (a failed sub-request of a
    composite still belongs to the logical request) — and never on the top-level context. Shared with C04 (service time under error outcomes).
    Decided on VALUES: the guard facts of every propagation call (explicit branches, negated guard clauses, the call sites of an extracted helper), seen through single-assignment
    locals, are evaluated for every combination of {top-level: the reset token remembers Token.MISSING, nested under an empty / a filled parent dict} x {block left normally, with
    an exception} x {own context with / without timings}; the token attribute is the one __enter__ unpacks the token into. The call must be reached in every nested row in which
    the context has timings, and in no top-level row - whatever the test is spelled like."""
    R = context_roles(ctx)
    ex, props = _propagations(R)
    _need(R, "token_attr", "ctx_attr")
    # the parent can only receive anything if it is the current context again: every normal way out of __exit__ leads through the restore (also the early ones that propagate nothing)
    g = cfg_of(ex)
    resets = _restore_calls(ex, R)
    rkey = f"{_C}:RequestContextManager.__exit__:restore-on-every-exit"
    if not resets:  # __exit__ and everything it calls on the holder were located: nothing restores the enclosing context
        chk.ob(rid, "every normal exit of __exit__ has restored the enclosing context", False, ex, "nothing reached from __exit__ resets the ContextVar: later requests of the task are "
               "booked on the stale nested context", key=rkey)
    else:
        if len(resets) == 1:
            ok = all(cfg_of(f_).must_pass(cfg_of(f_).entry, [cfg_of(f_).node_of(x)]) for x in resets[0][1] for f_ in [source.enclosing_func(x)])
        else:
            ok = g.must_pass(g.entry, [g.node_of(ch[0]) for _, ch in resets])
        pth = None
        if not ok:
            p_ = g.find_path(g.entry, g.exit, avoid=[g.node_of(ch[0]) for _, ch in resets])
            pth = g.describe_path(p_) if p_ else None
        chk.ob(rid, "every normal exit of __exit__ has restored the enclosing context", ok, resets[0][0],
               "" if ok else "a path leaves the context manager without reset(token): later requests of the task are booked on the stale nested context", path=pth, key=rkey)
    own_full = {"request_start": 3.0, "request_end": 5.0}
    for p, chain in props:
        facts = _chain_facts(chain)
        lost = leaked = None
        try:
            for parent in (_MISSING, {}, {"request_start": 1.0, "request_end": 9.0}):
                for exc in (False, True):
                    for own in (own_full, {}):
                        reached = all(bool(_ev(f, _exit_env(R, ex, parent, own, exc))) for f in facts)
                        row = f"parent context {'absent' if parent is _MISSING else ('empty' if not parent else 'with timings')}, block left {'with an exception' if exc else 'normally'}"
                        if parent is _MISSING and reached:
                            leaked = leaked or row
                        if parent is not _MISSING and own and not reached:
                            lost = lost or row
        except CannotEval as x:
            chk.unknown(rid, f"guard of the propagation call `{short(p, 50)}` cannot be evaluated ({x})", p)
            continue
        chk.ob(rid, "propagation only when a parent context exists", lost is None and leaked is None, p, f"guards {[u(f) for f in facts]}"
               + (f" — not propagated: {lost}" if lost else "") + (f" — propagated although: {leaked}" if leaked else ""))


_A = "esrally/client/asynchronous.py"
_F = "esrally/client/factory.py"
_NODE_API = "perform_request"  # the method of the transport library's node interface that issues ONE wire request (AsyncTransport calls it once per attempt)
_EXC_SIGNAL = "on_request_exception"  # aiohttp's trace signal for a request that fails BEFORE its response headers have arrived


def _mentions(e, var: str, attrs) -> bool:
    """does expression e read <var>.<attr> for one of attrs"""
    return any(isinstance(n, ast.Attribute) and n.attr in attrs and isinstance(n.value, ast.Name) and n.value.id == var for n in ast.walk(e))


def timing_presence_table(node, cvn: str, defs: dict, facts=None):
    """Decide on VALUES under which (start, end) of the context object `cvn` the expression `node` is evaluated: the guard facts of node (explicit branches, conditional
    expressions and the negated conditions of preceding guard clauses) that speak about the context's start / end are evaluated - seen through single-assignment locals - on every
    combination of a missing (None), a falsy-but-legal (0.0) and an ordinary time. `facts`: the guard facts already collected and resolved by the caller (those of a chain
    through helper calls) instead of the ones of node's own function. Returns ({(start, end): reached?}, [texts of the facts used]); raises CannotEval."""
    from sa.minieval import Record

    cand = [source.inline_node(f, defs) for f in pat.fact_nodes(node)] if facts is None else list(facts)
    facts = [fi for fi in cand if _mentions(fi, cvn, ("request_start", "request_end"))]
    table = {}
    for s in (None, 0.0, 5.0):
        for e in (None, 0.0, 7.0):
            env = {cvn: Record(request_start=s, request_end=e)}
            table[(s, e)] = all(bool(ev(f, dict(env))) for f in facts)
    return table, [u(f) for f in facts]


def _holder_names(mod) -> set:
    """names under which the request context holder (context.RequestContextHolder or a class of `mod` deriving from it) can be addressed in module `mod`"""
    names = {k for k, v in mod.imports.items() if v == "esrally.client.context.RequestContextHolder"}
    grew = True
    while grew:
        grew = False
        for c in mod.classes():
            if c.name not in names and any(last_attr(b) in names for b in c.bases):
                names.add(c.name)
                grew = True
    return names


def _end_recorders(repo):
    """(zero-argument recorders, one-argument merges): holder methods that stamp the END of a wire request - by VALUE: a merge, run abstractly with the value 7.0 on an empty
    context, leaves ctx['request_end'] == 7.0 (whichever helper does the store); a recorder, run with the virtual monotonic clock at 7.0, does the same (a reading of any other
    clock is a different value)."""
    ctx = repo.module(_C)
    hm = ctx.methods(ctx.cls("RequestContextHolder"))
    merges, recs = set(), set()
    for nm, f in hm.items():
        nparams = len(_value_params(f))
        if nparams > 1:
            continue
        try:
            after = run_holder(f, [7.0] if nparams else [], {}, clock=None if nparams else 7.0).ctxd
        except (_Stuck, _Raises):
            continue
        if after.get("request_end") == 7.0 and "request_start" not in after:
            (merges if nparams else recs).add(nm)
    if not merges or not recs:
        raise AnchorMissing("RequestContextHolder: no method records the end of a wire request (store of 'request_end' / clock read handed to it)")
    return recs, merges


_NODE_FAILURES = ("elastic_transport.TransportError",)  # root of what the library's node raises for a failed wire request (ConnectionTimeout, ConnectionError, TlsError, ...)


def _absorbed_transport_failures(repo, hier) -> list:
    """exception classes of a failed WIRE request that still yield a sample: the library's node-level failure root(s), provided an absorbing handler of the executor's
    execute_single catches them by the parsed library hierarchy (an exception that is not absorbed ends the task - no timing is recorded for it at all)."""
    from sa.exc import handler_type_names

    drv = repo.module(_D)
    es = drv.func("execute_single")
    g = cfg_of(es)
    out = []
    for t in (n for n in walk_body(es) if isinstance(n, ast.Try)):
        for h in t.handlers:
            if not any(g.exit.id in g.reachable([x]) for x in g.by_ast.get(id(h), [])):
                continue  # the handler raises on every path
            out += [c for c in _NODE_FAILURES if c not in out and hier.catches(handler_type_names(h, drv), c)]
    if not out:
        raise AnchorMissing("execute_single: no absorbing handler for the transport-level failure classes (which failed wire requests still produce a sample?)")
    return out


def node_failure_end(repo) -> dict:
    """How the async HTTP node of the client records the END of a wire request that FAILS. aiohttp signals `on_request_exception` only until the response headers have arrived;
    a request that fails later (timeout / disconnect while elastic_transport reads the body) is seen by nobody but the node's own perform_request. Decided on the CFG of the
    node class's perform_request override, per exception class C of a failed wire request that still yields a sample: the first interceptor of C among the exceptional
    successors of the delegating call (handlers in order, by the library exception hierarchy; a finally block; else the function's raise exit) must lead through an end-recorder
    call of the request context holder on every path (attempted unconditionally), and must not complete normally (the failure still propagates).
    Returns {"cls", "method", "site", "rows": [(C, recorded, propagates, detail)], "ok": all recorded}; method None: the node class does not override perform_request."""
    from sa.exc import Hierarchy, handler_type_names

    if getattr(repo, "_c18_node_failure_end", None) is not None:
        return repo._c18_node_failure_end
    mod = repo.module(_A)
    ncs = {n.value.id for n in ast.walk(mod.tree) if isinstance(n, ast.keyword) and n.arg == "node_class" and isinstance(n.value, ast.Name)}
    cands = [c for c in mod.classes() if c.name in ncs]
    if len(cands) != 1:
        raise AnchorMissing(f"{_A}: the node class handed to the transport (node_class=<Class>) could not be identified ({sorted(ncs)})")
    ncls = cands[0]
    hier = Hierarchy()
    classes = _absorbed_transport_failures(repo, hier)
    pr = mod.methods(ncls).get(_NODE_API)
    res = {"cls": ncls, "method": pr, "site": pr if pr is not None else ncls, "rows": [], "ok": False}
    if pr is None:
        res["rows"] = [(c, False, True, f"{ncls.name} does not override {_NODE_API}: a failure after the response headers is seen by no rally code") for c in classes]
        repo._c18_node_failure_end = res
        return res
    dels = [n for n in walk_body(pr) if isinstance(n, ast.Call) and isinstance(n.func, ast.Attribute) and n.func.attr == _NODE_API
            and ((isinstance(n.func.value, ast.Call) and dotted(n.func.value.func) == "super") or last_attr(n.func.value) in {last_attr(b) for b in ncls.bases})]
    if len(dels) != 1:
        raise AnchorMissing(f"{_A}: {ncls.name}.{_NODE_API} does not delegate exactly once to the library's {_NODE_API} ({len(dels)} delegating call(s))")
    recs, merges = _end_recorders(repo)
    holders = _holder_names(mod)

    def recorder_calls(fn):
        return [n for n in walk_body(fn) if isinstance(n, ast.Call) and isinstance(n.func, ast.Attribute) and last_attr(n.func.value) in holders
                and ((n.func.attr in recs and not n.args) or (n.func.attr in merges and len(n.args) == 1 and pat.is_(source.inline_node(n.args[0], _ldefs(fn)), "time.perf_counter()")))]

    def records_always(fn, depth=0) -> bool:
        """an extracted helper of the node class that attempts an end-recorder call on every way through it (exceptional ways included)"""
        gh = cfg_of(fn)
        through = [x for c in recorder_calls(fn) + helper_calls(fn, depth + 1) for x in gh.nodes_of(c)]
        return bool(through) and gh.must_pass(gh.entry, through, exits=[gh.exit, gh.raise_exit])

    def helper_calls(fn, depth=0):
        nm = mod.methods(ncls)
        return [n for n in walk_body(fn) if depth < 3 and isinstance(n, ast.Call) and isinstance(n.func, ast.Attribute) and isinstance(n.func.value, ast.Name) and n.func.value.id == "self"
                and n.func.attr in nm and nm[n.func.attr] is not fn and n.func.attr != _NODE_API and records_always(nm[n.func.attr], depth)]

    ends = recorder_calls(pr) + helper_calls(pr)
    g = cfg_of(pr)
    end_nodes = [x for c in ends for x in g.nodes_of(c)]
    dn = g.node_of(dels[0])
    exc_succ = [g.nodes[y] for (y, lab) in g.succ[dn.id] if not g.normal_edge(dn.id, y, lab)]  # inner-to-outer, handlers of one try in source order

    def edge_ok(x, y, lab):  # entering `with [contextlib.]suppress(...)` does not fail: its exception edge is not a way around the call it protects
        nx = g.nodes[x]
        return not (nx.kind == "with" and not g.normal_edge(x, y, lab) and all(isinstance(i.context_expr, ast.Call) and last_attr(i.context_expr.func) == "suppress" for i in nx.ast.items))

    for c in classes:
        first = None
        for x in exc_succ:
            if x.kind == "except" and not hier.catches(handler_type_names(x.ast, mod), c):
                continue
            first = x
            break
        if first is None or first is g.raise_exit:
            res["rows"].append((c, False, True, f"a {c} raised by the wire request leaves {_NODE_API} without passing any handler"))
            continue
        away = g.reachable([first], avoid=end_nodes, edge_ok=edge_ok)  # what the failure can reach without attempting an end-recorder call
        recorded = bool(end_nodes) and g.exit.id not in away and g.raise_exit.id not in away
        propagates = g.exit.id not in g.reachable([first])
        how = f"except {u(first.ast.type) if first.ast.type is not None else ''}".strip() if first.kind == "except" else "finally"
        pth = None
        if not recorded:  # for the report prefer a path on which nothing but an explicit `raise` raises
            for eo in (lambda x, y, lab: edge_ok(x, y, lab) and not lab.startswith("exc"), edge_ok):
                pth = pth or g.find_path(first, g.raise_exit, avoid=end_nodes, edge_ok=eo) or g.find_path(first, g.exit, avoid=end_nodes, edge_ok=eo)
        res["rows"].append((c, recorded, propagates, f"intercepted by `{how}` at line {getattr(first.ast, 'lineno', '?')}; {len(ends)} end-recorder call(s)"
                            + ("" if recorded else f"; path without one: {' '.join(g.describe_path(pth)) if pth else '?'}")))
    res["ok"] = all(r[1] for r in res["rows"])
    repo._c18_node_failure_end = res
    return res


def trace_hook_table(chk, rid, repo):
    """The signals that start / stop the service-time clock of ONE wire request (owned by C18, shared with C04/O4.2): the start callback is registered for aiohttp's request start
    only; the stop callback for every response chunk (so the LAST chunk counts) and for request end; no request-side signal stops the clock; and a wire request that FAILS has
    its end recorded unconditionally by at least one of (the exception trace hook, the node-level perform_request handler). Since F39 the node-level handler records the end of
    every failed request (before or after the headers), so a conditional / absent exception hook is behaviour-preserving as long as that handler is in place; without it the
    exception hook must be the plain stop callback."""
    fac = repo.module(_F)
    chk.use(fac, repo.module(_A))
    f = fac.methods(fac.cls("EsClientFactory")).get("create_async")
    if f is None:
        raise AnchorMissing("EsClientFactory.create_async")
    tc = [n for n in walk_body(f) if isinstance(n, ast.Assign) and isinstance(n.value, ast.Call) and last_attr(n.value.func) == "TraceConfig" and isinstance(n.targets[0], ast.Name)]
    if not tc:
        raise AnchorMissing("aiohttp.TraceConfig() in create_async")
    tv = tc[0].targets[0].id
    # roles of the callbacks by data flow: a callback STARTS / STOPS the clock if it calls a zero-argument holder method that - run abstractly on an empty context with the
    # virtual monotonic clock - records the request's start / end. The callback may be a nested function, a module-level function or a method of the factory, and may reach the
    # registration through a local alias.
    hm = repo.module(_C).methods(repo.module(_C).cls("RequestContextHolder"))
    starters, stoppers = set(), set()
    for nm, hf in hm.items():
        if not _value_params(hf):
            try:
                after = run_holder(hf, [], {}, clock=7.0).ctxd
            except (_Stuck, _Raises):
                continue
            if set(after) == {"request_start"}:  # (WHICH clock it reads is the obligation on the wire callbacks in O18.1 / O4.2, not part of the role)
                starters.add(nm)
            elif set(after) == {"request_end"}:
                stoppers.add(nm)
    if not starters or not stoppers:
        raise AnchorMissing("RequestContextHolder: the zero-argument methods that record the start / the end of a wire request from the monotonic clock were not located")
    fcls = fac.cls("EsClientFactory")
    nested = {d.name: d for d in walk_body(f) if isinstance(d, source.FUNC_TYPES)}
    modfuncs = {d.name: d for d in fac.tree.body if isinstance(d, source.FUNC_TYPES)}

    def classify(d):
        called = {last_attr(c.func) for c in ast.walk(d) if isinstance(c, ast.Call)}
        # a callback has a plain role only if its body is the single unconditional call (docstring / logging aside)
        body_ = [st_ for st_ in d.body if not (isinstance(st_, ast.Expr) and isinstance(st_.value, ast.Constant)) and not is_logging_stmt(st_) and not isinstance(st_, (ast.Import, ast.ImportFrom))]
        plain = len(body_) == 1 and isinstance(body_[0], ast.Expr) and isinstance(body_[0].value, (ast.Call, ast.Await))
        if called & starters and not called & stoppers:
            return "start" if plain else "conditional start"
        if called & stoppers and not called & starters:
            return "stop" if plain else "conditional stop"
        return None

    def callback_def(e, fdefs, penv):
        """the function definition a registered callback expression denotes (nested function, module-level function, method of the factory, a helper's parameter bound to one)"""
        e = _alias_root(e, fdefs)
        if isinstance(e, ast.Name):
            return penv.get(e.id) or nested.get(e.id) or modfuncs.get(e.id)
        if isinstance(e, ast.Attribute) and isinstance(e.value, ast.Name) and e.value.id in ("self", "cls", fcls.name):
            return fac.methods(fcls).get(e.attr)
        return None

    def registrations(fn, var, depth=0, penv=None):
        """{signal: [role | 'other:<text>' | '?<text>' (not resolved)]} for the registrations on the trace configuration held by the local / parameter `var` of fn; a helper of
        the factory that is handed the configuration is followed (its parameters bound to the callbacks it is handed)"""
        fdefs, penv = _ldefs(fn), penv or {}
        out: dict = {}
        for n in walk_body(fn):
            if isinstance(n, ast.Attribute) and isinstance(n.value, ast.Name) and n.value.id == var and isinstance(n.ctx, ast.Load):
                p_, pp = source.parent(n), source.parent(source.parent(n))
                if isinstance(p_, ast.Attribute) and p_.attr == "append" and isinstance(pp, ast.Call) and pp.func is p_ and len(pp.args) == 1 and not pp.keywords:
                    d = callback_def(pp.args[0], fdefs, penv)
                    out.setdefault(n.attr, []).append(f"?{u(pp.args[0])}" if d is None else (classify(d) or f"other:{u(pp.args[0])}"))
                elif not (isinstance(p_, ast.Call) and p_.func is n):  # a signal list used in some other way (extend, +=, handed on): not recognised
                    out.setdefault(n.attr, []).append(f"?{short(source.enclosing_stmt(n), 50)}")
            elif isinstance(n, ast.Call) and depth < 2 and any(isinstance(a, ast.Name) and a.id == var for a in list(n.args) + [k.value for k in n.keywords]):
                callee = callback_def(n.func, {}, {})
                if callee is not None:
                    b = source.bind_args(n, callee)
                    pn = [k for k, v in b.items() if isinstance(v, ast.Name) and v.id == var]
                    penv2 = {k: callback_def(v, fdefs, penv) for k, v in b.items()}
                    for k, v in (registrations(callee, pn[0], depth + 1, {k: v for k, v in penv2.items() if v is not None}) if pn else {}).items():
                        out.setdefault(k, []).extend(v)
        return out

    table = registrations(f, tv)
    try:
        nf = node_failure_end(repo)
        node_ok = nf["ok"]
        node_detail = "records it unconditionally" if node_ok else "; ".join(r[3] for r in nf["rows"] if not r[1])[:200]
    except AnchorMissing as e:  # the node-level handler cannot be located: only the trace hook can vouch for the failure path
        node_ok, node_detail = False, f"not located ({e})"
    want = {"on_request_start": ["start"], "on_response_chunk_received": ["stop"], "on_request_end": ["stop"], _EXC_SIGNAL: ["stop"]}
    for sig in sorted(set(want) | set(table)):
        got = table.get(sig, [])
        ok = (got == want[sig]) if sig in want else not any(r in ("start", "stop", "conditional start", "conditional stop") for r in got)
        detail = f"registered: {got or 'nothing'}"
        if sig == _EXC_SIGNAL:
            # at least one of the two recorders of a failed request's end is unconditional; with the node-level handler in place the hook may be conditional or absent,
            # but nothing other than a stop callback may hang on the signal
            ok = ok or (node_ok and all(r in ("stop", "conditional stop") for r in got))
            detail += f"; node-level {_NODE_API} handler: {node_detail}"
        if not ok and sig in want and any(r.startswith("?") for r in got):
            chk.unknown(rid, f"trace signal {sig}: a registration could not be resolved to a callback of the factory ({[r[1:] for r in got if r.startswith('?')]})", tc[0])
            continue
        chk.ob(rid, f"trace signal {sig} -> {want.get(sig, ['(nothing)'])[0]} the service-time clock", ok, tc[0], detail + ("" if ok else
               (" — the clock stops before the response body has arrived" if sig not in want and "stop" in got else
                ((" — neither the exception hook nor the node-level handler records the end of a failed request unconditionally" if not node_ok else
                  " — something other than the stop callback hangs on the failure signal") if sig == _EXC_SIGNAL else
                 " — the span no longer ends with the last response chunk / an error"))),
               key=f"{_F}:EsClientFactory.create_async:trace:{sig}")
    used = [n for n in walk_body(f) if isinstance(n, ast.keyword) and n.arg == "trace_config" and u(n.value) == tv]
    anyuse = any(isinstance(n, ast.Name) and n.id == tv and isinstance(n.ctx, ast.Load) and not isinstance(source.parent(n), ast.Attribute) for n in walk_body(f))
    chk.ob(rid, "the trace configuration is handed to the client", bool(used) or anyuse, tc[0], "")


def _dict_origin_ok(name: str, f, R, depth=0):
    """is the local / parameter `name` of holder method f the current context's dict (`<cv>.get()`)? True / False, None if it cannot be traced. A parameter is traced to the
    arguments of every call of f inside the holder class (an extracted helper that is handed the dict)."""
    d = local_defs(f).get(name)
    if d is not None:
        if isinstance(d, ast.Name) and depth < 5:
            return _dict_origin_ok(d.id, f, R, depth + 1)
        return _is_ctx_get(d, R.cv)
    if name in params_of(f) and depth < 5:
        callers = list(R.hm.values()) + [x for x in R.mod.tree.body if isinstance(x, source.FUNC_TYPES)]
        if isinstance(source.parent(f), ast.ClassDef):
            sites = [(c, g) for g in callers for c in source.calls_in(g) if isinstance(c.func, ast.Attribute) and isinstance(c.func.value, ast.Name)
                     and c.func.value.id in ("cls", "self", R.RCH.name) and c.func.attr == f.name]
        else:  # a module-level function of the context module
            sites = [(c, g) for g in callers for c in source.calls_in(g) if isinstance(c.func, ast.Name) and c.func.id == f.name]
        res = []
        for c, g in sites:
            a = source.bind_args(c, f, skip_self=isinstance(source.parent(f), ast.ClassDef) and "staticmethod" not in {last_attr(d_) for d_ in f.decorator_list}).get(name)
            res.append(None if a is None else (_is_ctx_get(a, R.cv) or (_dict_origin_ok(a.id, g, R, depth + 1) if isinstance(a, ast.Name) else False)))
        if not res or any(r is None for r in res):
            return None
        return all(res)
    if any(isinstance(n, ast.Assign) and any(isinstance(t, ast.Name) and t.id == name for t in n.targets) for n in list(R.mod.tree.body) + list(R.RCH.body)):
        return False  # a module- / class-level container is not the current context's dict
    return None if name not in {n.id for n in walk_body(f) if isinstance(n, ast.Name) and isinstance(n.ctx, ast.Store)} else False


def _fresh_dict(d, f, R, depth=0):
    """is the expression d (in holder method f) a NEW, empty dict on every evaluation? True: an empty dict display / dict() (keys preset to None are as good as absent), also when a
    method of the holder builds it; None: a parameter (not traced); False: anything else - a shared object (global, attribute, a literal that the parse-time constant propagation
    N9 copied from a module- / class-level constant) or a mapping built by some other call (a view on the enclosing context, a copy of it)"""
    if getattr(d, "_from_constant", False):
        return False
    if isinstance(d, ast.Dict):
        return all(k is not None and source.is_const(v) and v.value is None for k, v in zip(d.keys, d.values))
    if isinstance(d, ast.Call) and dotted(d.func) == "dict" and not d.args:
        return all(k.arg is not None and source.is_const(k.value) and k.value.value is None for k in d.keywords)
    if isinstance(d, ast.Call) and isinstance(d.func, ast.Attribute) and isinstance(d.func.value, ast.Name) and d.func.value.id in ("cls", "self", R.RCH.name) and d.func.attr in R.hm and depth < 3:
        h = R.hm[d.func.attr]
        rets = [n for n in walk_body(h) if isinstance(n, ast.Return) and n.value is not None]
        return len(rets) == 1 and bool(_fresh_dict(source.inline_node(rets[0].value, local_defs(h)), h, R, depth + 1))
    if isinstance(d, ast.Name) and f is not None and d.id in params_of(f):
        return None
    return False


_PURE_READERS = ("len", "sorted", "tuple", "frozenset", "any", "all", "min", "max", "sum", "enumerate", "iter", "reversed")


def _used_as_state(assign, mod) -> bool:
    """is the module- / class-level container bound by `assign` used by any function of the module other than read-only (membership test, iteration, subscript load, len() and
    the like)? Writing to it, calling a method on it, handing it to a call, storing or returning it all count."""
    names = {t.id for t in assign.targets if isinstance(t, ast.Name)}
    in_class = isinstance(source.parent(assign), ast.ClassDef)
    lit = ast.dump(assign.value)
    for n in ast.walk(mod.tree):
        hit = (isinstance(n, ast.Name) and n.id in names and not in_class) or (isinstance(n, ast.Attribute) and n.attr in names and in_class and isinstance(n.value, ast.Name))
        # the parse-time constant propagation (N9) replaces loads of a CONSTANT_CASE name by a copy of its literal: such a copy IS a use of the shared container
        hit = hit or (getattr(n, "_from_constant", False) and isinstance(n, (ast.Dict, ast.List, ast.Set, ast.Call)) and ast.dump(n) == lit)
        if not hit or source.enclosing_func(n) is None or n in assign.targets:
            continue
        p_ = source.parent(n)
        if not isinstance(getattr(n, "ctx", ast.Load()), ast.Load):
            return True
        if isinstance(p_, ast.Compare) and n in p_.comparators and all(isinstance(o, (ast.In, ast.NotIn)) for o in p_.ops):
            continue
        if isinstance(p_, (ast.For, ast.AsyncFor, ast.comprehension)) and p_.iter is n:
            continue
        if isinstance(p_, ast.Subscript) and p_.value is n and isinstance(p_.ctx, ast.Load):
            continue
        if isinstance(p_, ast.Call) and n in p_.args and dotted(p_.func) in _PURE_READERS:
            continue
        return True
    return False


_RUNNER = "execute_single"  # the driver's function that invokes the runner of ONE request: the anchor of the executor's request step (never followed as a helper)
_LOOPS = (ast.AsyncFor, ast.For, ast.While)


def _has_yield(f) -> bool:
    return any(isinstance(x, (ast.Yield, ast.YieldFrom)) for x in walk_body(f))


def _namedtuple_fields(e):
    """field names of a `[collections.]namedtuple("K", <names>)` call (names as a list / tuple of strings or one string), else None"""
    if not (isinstance(e, ast.Call) and last_attr(e.func) == "namedtuple" and len(e.args) == 2):
        return None
    spec = e.args[1]
    if source.is_const(spec) and isinstance(spec.value, str):
        return spec.value.replace(",", " ").split()
    if isinstance(spec, (ast.List, ast.Tuple)) and all(source.is_const(x) and isinstance(x.value, str) for x in spec.elts):
        return [x.value for x in spec.elts]
    return None


def _record_fields(mod, name):
    """field names, in constructor order, of the record type `name` of module mod: `K = namedtuple("K", ...)`, a class deriving from such a call or from [typing.]NamedTuple,
    a @dataclass - provided the class defines no __init__ / __new__ of its own; None if `name` is no such type (then nothing is known about what its constructor does)"""
    for n in mod.tree.body:
        if isinstance(n, ast.Assign) and len(n.targets) == 1 and isinstance(n.targets[0], ast.Name) and n.targets[0].id == name:
            return _namedtuple_fields(n.value)
        if isinstance(n, ast.ClassDef) and n.name == name:
            if any(isinstance(x, source.FUNC_TYPES) and x.name in ("__init__", "__new__", "__post_init__", "__getattr__", "__getattribute__", "__getitem__") for x in n.body):
                return None
            for b in n.bases:
                if _namedtuple_fields(b) is not None:
                    return _namedtuple_fields(b)
            deco = {last_attr(d.func if isinstance(d, ast.Call) else d) for d in n.decorator_list}
            if "dataclass" in deco or any(last_attr(b) == "NamedTuple" for b in n.bases):
                if any(isinstance(d, ast.Call) and any(k.arg in ("init", "kw_only") for k in d.keywords) for d in n.decorator_list):
                    return None
                # (the parse-time normalisation N7 turns an annotated field with a default into a plain assignment)
                return [x.target.id if isinstance(x, ast.AnnAssign) else x.targets[0].id for x in n.body
                        if (isinstance(x, ast.AnnAssign) and isinstance(x.target, ast.Name)) or (isinstance(x, ast.Assign) and len(x.targets) == 1 and isinstance(x.targets[0], ast.Name))]
            return None
    return None


class _Step:
    """A function of a class seen TOGETHER WITH the helpers it calls (an extracted `_execute_request`, a helper that hands the sample to the sampler, ...): other methods of the
    class called as self.m(...) - also through a hoisted bound method - and module-level functions of the same module called by name, PROVIDED the call runs inline in the
    calling task (a coroutine helper is awaited on the spot, a plain helper is not a generator): only then do the helper's statements belong to the same request and run in
    the same contextvars context. A call that is wrapped in anything else (create_task, wait_for, gather) is not followed: what it does is 'not recognised', never a verdict.
    A position in this view is a CHAIN of nodes, one per function: [call site in the top function, call site in the helper, ..., the node itself]."""

    def __init__(self, mod, cls, top, stop=()):
        self.mod, self.cls, self.top = mod, cls, top
        self.meths = mod.methods(cls) if cls is not None else {}
        self.modfuncs = {d.name: d for d in mod.tree.body if isinstance(d, source.FUNC_TYPES) and d.name not in stop}
        self.ambiguous: set = set()  # names met by resolve() that are bound more than once in their function (their value at the point of use is not known)
        self._defs: dict = {}

    # -- helpers -----------------------------------------------------------------------------------------------------------------------------
    def callee(self, c, fn):
        """the helper that the call c (a node of function fn) runs inline, else None"""
        f = _alias_root(c.func, self.defs(fn)[0]) if isinstance(c.func, ast.Name) else c.func
        h = None
        if isinstance(f, ast.Attribute) and isinstance(f.value, ast.Name) and f.value.id in ("self", "cls", getattr(self.cls, "name", "")) and f.attr in self.meths:
            h = self.meths[f.attr]
        elif isinstance(f, ast.Name) and f.id in self.modfuncs and f.id not in self.defs(fn)[2]:
            h = self.modfuncs[f.id]
        if h is None or h is fn or _has_yield(h) or {last_attr(d.func if isinstance(d, ast.Call) else d) for d in h.decorator_list} - {"staticmethod", "classmethod"}:
            return None
        if isinstance(h, ast.AsyncFunctionDef) and not isinstance(source.parent(c), ast.Await):
            return None
        return h

    def reached(self, root, fn, depth=0) -> list:
        """[(node, chain)]: every node under root (a node of fn, or fn itself) and, through at most three inline helper calls, every node of the helpers' bodies"""
        out = []
        for n in (walk_body(root) if root is fn else ast.walk(root)):
            out.append((n, [n]))
            if isinstance(n, ast.Call) and depth < 3:
                h = self.callee(n, fn)
                if h is not None:
                    out += [(m, [n] + ch) for m, ch in self.reached(h, h, depth + 1)]
        return out

    def functions(self, fn=None, sites=(), depth=0) -> list:
        """[(function, call sites leading to it, outermost first)]: fn (default: the top function) and the helpers it runs inline"""
        fn = fn or self.top
        out = [(fn, list(sites))]
        for n in (walk_body(fn) if depth < 3 else ()):
            h = self.callee(n, fn) if isinstance(n, ast.Call) else None
            if h is not None:
                out += self.functions(h, list(sites) + [n], depth + 1)
        return out

    # -- values across helpers -------------------------------------------------------------------------------------------------------------
    def defs(self, fn):
        """(single-assignment locals of fn [parallel assignments included], names unpacked exactly once from a tuple-valued expression: name -> (value, position, arity),
        {name: number of bindings} for every name bound in fn)"""
        if id(fn) not in self._defs:
            counts: dict = {}
            for n in walk_body(fn):
                if isinstance(n, ast.Name) and isinstance(n.ctx, (ast.Store, ast.Del)):
                    counts[n.id] = counts.get(n.id, 0) + 1
            unp = {}
            for n in walk_body(fn):
                if isinstance(n, ast.Assign) and len(n.targets) == 1 and isinstance(n.targets[0], ast.Tuple) and not isinstance(n.value, ast.Tuple) \
                        and all(isinstance(t, ast.Name) for t in n.targets[0].elts):
                    unp.update({t.id: (n.value, i, len(n.targets[0].elts)) for i, t in enumerate(n.targets[0].elts) if counts.get(t.id) == 1})
            self._defs[id(fn)] = (_ldefs(fn), unp, counts)
        return self._defs[id(fn)]

    def tag(self, name, fn) -> str:
        """how resolve() spells the local `name` of function fn: a local of a helper carries the helper's name (two functions may use the same name for different things)"""
        return name if fn is self.top else f"{name}__in__{fn.name}"

    def returned(self, e, fn, sites, depth, index=None, arity=None, opaque_calls=True):
        """the value (element `index` of the tuple) that the inline helper call e of function fn returns, seen from the top function; None if e is no such call or the helper
        does not have exactly one return [of a tuple display of that arity]"""
        c = e.value if isinstance(e, ast.Await) else e
        h = self.callee(c, fn) if isinstance(c, ast.Call) else None
        rets = [n for n in walk_body(h) if isinstance(n, ast.Return)] if h is not None else []
        if len(rets) != 1 or rets[0].value is None:
            return None
        v = rets[0].value
        if index is not None:
            v = source.inline_node(v, {k: d for k, d in self.defs(h)[0].items() if isinstance(d, ast.Tuple)}) if isinstance(v, ast.Name) else v
            if not isinstance(v, ast.Tuple) or len(v.elts) != arity or any(isinstance(x, ast.Starred) for x in v.elts):
                return None
            v = v.elts[index]
        return self.resolve(v, h, list(sites) + [c], depth + 1, opaque_calls)

    def resolve(self, e, fn, sites, depth=0, opaque_calls=True):
        """Copy of the expression e of function fn (reached through the call sites `sites`) as the TOP function sees it: single-assignment locals replaced by their definitions
        (a definition that contains a call stays an opaque atom - two reads are not the same value - unless opaque_calls=False: for a guard fact, which is evaluated, the
        definition is what counts), parameters of a helper by the arguments of its call site, names that take
        the result of an inline helper call by what that helper returns (by position for an unpacked tuple). Names that remain are spelled tag(name, function) and carry
        `_owner` / `_orig`; a name bound more than once is recorded in self.ambiguous."""
        me = self
        d1, unp, counts = self.defs(fn)
        params = params_of(fn) + [a.arg for a in fn.args.kwonlyargs]

        def atom(n):
            if not counts.get(n.id) and n.id not in params:
                return n  # not bound in fn: a global / builtin name means the same in every function
            if counts.get(n.id, 0) > 1 and n.id not in d1 and n.id not in unp:
                me.ambiguous.add(me.tag(n.id, fn))
            x = ast.copy_location(ast.Name(id=me.tag(n.id, fn), ctx=ast.Load()), n)
            x._owner, x._orig = fn, n.id
            return x

        class T(ast.NodeTransformer):
            def visit_Name(self, n):
                if not isinstance(n.ctx, ast.Load) or depth > 12:
                    return atom(n)
                if n.id in d1:
                    d = d1[n.id]
                    if any(isinstance(x, (ast.Call, ast.Await)) for x in ast.walk(d)):
                        v = me.returned(d, fn, sites, depth, opaque_calls=opaque_calls)
                        if v is not None or opaque_calls:
                            return v if v is not None else atom(n)
                    return me.resolve(d, fn, sites, depth + 1, opaque_calls)
                if n.id in unp:
                    v = me.returned(unp[n.id][0], fn, sites, depth, unp[n.id][1], unp[n.id][2], opaque_calls)
                    return v if v is not None else atom(n)
                if n.id in params and sites and not counts.get(n.id):
                    a = source.bind_args(sites[-1], fn).get(n.id)
                    if a is not None:
                        return me.resolve(a, source.enclosing_func(sites[-1]), sites[:-1], depth + 1, opaque_calls)
                return atom(n)

            def visit_Attribute(self, n):
                self.generic_visit(n)
                v = n.value  # a field of a record (named tuple / dataclass of the module) that was built by a constructor call in view: the argument bound to that field
                fields = _record_fields(me.mod, v.func.id) if isinstance(v, ast.Call) and isinstance(v.func, ast.Name) else None
                if fields and n.attr in fields and not any(isinstance(a, ast.Starred) for a in v.args) and all(k.arg for k in v.keywords):
                    bound = dict(zip(fields, v.args), **{k.arg: k.value for k in v.keywords})
                    if n.attr in bound and len(v.args) <= len(fields):
                        return bound[n.attr]
                return n

            def visit_Subscript(self, n):
                self.generic_visit(n)
                v = n.value
                fields = _record_fields(me.mod, v.func.id) if isinstance(v, ast.Call) and isinstance(v.func, ast.Name) else None
                if fields and not v.keywords and len(v.args) == len(fields) and not any(isinstance(a, ast.Starred) for a in v.args):
                    n.value = ast.Tuple(elts=list(v.args), ctx=ast.Load())  # a named tuple indexed by position
                if isinstance(v, ast.Dict) and source.is_const(n.slice) and all(k is not None and source.is_const(k) for k in v.keys):  # a dict display looked up by a constant key
                    hits = [x for k, x in zip(v.keys, v.values) if k.value == n.slice.value and type(k.value) is type(n.slice.value)]
                    if hits:
                        return hits[-1]
                if isinstance(n.value, ast.Tuple) and isinstance(n.slice, ast.Constant) and isinstance(n.slice.value, int) and not isinstance(n.slice.value, bool) \
                        and -len(n.value.elts) <= n.slice.value < len(n.value.elts) and not any(isinstance(x, ast.Starred) for x in n.value.elts):
                    return n.value.elts[n.slice.value]
                return n

        return T().visit(source.clone(e))  # (re-parsed: analysed nodes carry parent links and are never deep-copied)


def _manager_per_request(w, item, loop, top, step):
    """Is the context MANAGER object that the with statement w (item) enters created anew for every request? True: the context expression is itself the call that creates
    it, or a local bound to that call inside the request loop / inside a helper that the loop runs per request; False: a local bound once, outside the loop, in the function
    that holds the loop; None: cannot be told."""
    fw = source.enclosing_func(w)
    defs = step.defs(fw)[0]
    e, hops = item.context_expr, 0
    while isinstance(e, ast.Name) and e.id in defs and hops < 10:
        e, hops = defs[e.id], hops + 1
    if not isinstance(e, ast.Call):
        return None
    if hops == 0 or fw is not top:
        return True
    return loop in list(source.ancestors(e))


def _request_loop(drv, step=None):
    """(AsyncExecutor.__call__, its request loop): the loop over the schedule - of the `async for` loops of the method the one that contains the runner invocation, directly or
    inside a helper of the executor that the loop runs inline (the first one if that cannot be told). Same role as rules.C04.request_loop; derived here so that this module
    does not depend on another rule module being importable."""
    call = drv.methods(drv.cls("AsyncExecutor")).get("__call__")
    if call is None:
        raise AnchorMissing("AsyncExecutor.__call__")
    loops = [n for n in walk_body(call) if isinstance(n, ast.AsyncFor)]
    if not loops:
        raise AnchorMissing("request loop (async for over the schedule)")
    nodes = (lambda lp: [n for n, _ in step.reached(lp, call)]) if step is not None else ast.walk
    inner = [lp for lp in loops if any(isinstance(n, ast.Call) and last_attr(n.func) == _RUNNER for n in nodes(lp))]
    return call, (inner[0] if inner else loops[0])


def _merge_by_value(hm, key):
    """the one-value holder method that records `key` (run abstractly with 7.0 on an empty context it leaves exactly {key: 7.0}); None if there is not exactly one"""
    out = []
    for f in hm.values():
        if len(_value_params(f)) == 1:
            try:
                if run_holder(f, [7.0], {}).ctxd == {key: 7.0}:
                    out.append(f)
            except (_Stuck, _Raises):
                pass
    return out[0] if len(out) == 1 else None


# ---- composite stream tasks (O18.6 / O18.7) and the holder's subclasses (O18.2) ---------------------------------------------------------------------------------------

_TASK_MAKERS = ("create_task", "ensure_future")


def _qualified(e, mod) -> str:
    """dotted name of a callee with its head resolved through the module's imports (`create_task` imported from asyncio -> asyncio.create_task)"""
    d = dotted(e) or ""
    head = d.split(".")[0]
    tgt = mod.imports.get(head)
    return (tgt + d[len(head):]) if tgt else d


def _stream_tasks(rs, mod) -> list:
    """[(creating call, coroutine call)]: the calls in run_stream that start a stream as an asyncio task: <anything>.create_task(<coro>) / asyncio.ensure_future(<coro>) /
    create_task imported by name, whose coroutine - seen through a single-assignment local - is a call of run_stream itself (a nested stream)"""
    defs = local_defs(rs)
    out = []
    for n in walk_body(rs):
        if isinstance(n, ast.Call) and last_attr(n.func) in _TASK_MAKERS and (isinstance(n.func, ast.Attribute) or _qualified(n.func, mod).startswith("asyncio.")):
            a = n.args[0] if n.args else next((k.value for k in n.keywords if k.arg in ("coro", "coro_or_future")), None)
            if a is None:
                continue
            c = source.inline_node(a, defs)
            if isinstance(c, ast.Call) and isinstance(c.func, ast.Attribute) and c.func.attr == rs.name:
                out.append((n, c))
    return out


def _task_context(call, rs, mod):
    """How the task created by `call` gets its contextvars.Context: ('own', text) - no context= / None / a copy_context() taken for THIS task (in the argument itself or in a
    local bound in the same iteration that creates the task); ('shared', text) - a Context object that other tasks of this level are (or can be) handed as well;
    (None, text) - not traced."""
    kw = next((k for k in call.keywords if k.arg == "context"), None)
    if kw is None:
        if any(k.arg is None for k in call.keywords):
            return None, "keyword arguments handed on with **"
        return "own", "no context= argument: the task runs in a copy of its creator's context"
    v = kw.value
    if isinstance(v, ast.Constant) and v.value is None:
        return "own", "context=None"

    def is_copy(e):
        return isinstance(e, ast.Call) and not e.args and not e.keywords and _qualified(e.func, mod) == "contextvars.copy_context"

    if is_copy(v):
        return "own", "context=copy_context() evaluated per task"
    if isinstance(v, ast.Name):
        binds = [n for n in walk_body(rs) if isinstance(n, (ast.Assign, ast.AnnAssign)) and any(isinstance(t, ast.Name) and t.id == v.id for t in (n.targets if isinstance(n, ast.Assign) else [n.target]))]
        if len(binds) == 1 and binds[0].value is not None and is_copy(binds[0].value):
            same_iteration = source.enclosing(binds[0], _LOOPS) is source.enclosing(call, _LOOPS) and source.enclosing(call, _LOOPS) is not None
            if same_iteration:
                return "own", f"`{v.id}` is a copy_context() taken in the iteration that creates the task"
            return "shared", f"`{v.id}` = copy_context() is taken once (line {binds[0].lineno}) and handed to every task created in the loop"
        if len(binds) == 1 and binds[0].value is not None and not isinstance(binds[0].value, ast.Call) and source.enclosing(binds[0], _LOOPS) is None:
            return "shared", f"`{v.id}` = {short(binds[0].value, 40)} is one Context object for all tasks"
        return None, f"context={v.id}: where the Context object comes from could not be traced"
    if isinstance(v, ast.Attribute):
        return "shared", f"context={u(v)}: one Context object kept in an attribute for all tasks"
    return None, f"context={short(v, 40)} could not be traced"


def concurrent_streams(R, shared: bool):
    """Two streams of one composite level run as tasks A and B inside a top-level request context; each wraps ONE sub-request in a request context of its own (the per-operation
    wrapper). A starts first AND finishes first (wire 8.0 .. 10.0), B runs 9.0 .. 12.0 - the interleaving that is not LIFO. `shared`: both tasks run in ONE contextvars.Context
    (one binding of the variable); else each task has a copy of its creator's context, as asyncio gives it by default. Returns the first defect as a text, or None: each
    sub-request reads exactly its own span, the logical request 8.0 .. 12.0. Raises _Stuck / _Raises."""
    life = _Life(R)
    start, end = _wire(R)
    top, tb, d0, _ = life.open()
    cell = {"A": d0, "B": d0}
    running = [None]

    def switch(task):
        if running[0] is not None:
            for k in (cell if shared else [running[0]]):
                cell[k] = life.cur
        running[0] = task
        life.cur = cell[task]

    try:
        switch("A")
        ma, ab, da, _ = life.open()
        switch("B")
        mb, bb, db, _ = life.open()
        switch("A")
        start(life, 8.0)
        switch("B")
        start(life, 9.0)
        switch("A")
        end(life, 10.0)
        got_a = life.timings(ab)
        life.close(ma)
        switch("B")
        end(life, 12.0)
        got_b = life.timings(bb)
        life.close(mb)
        switch("A")  # (whatever is left in the tasks' contexts is dropped with the tasks)
    except _Raises as x:
        if shared:
            return f"the interleaving `A enters, B enters, A's request 8.0 .. 10.0, A exits, B's request 9.0 .. 12.0, B exits` fails in the shared context: {x}"
        raise
    life.cur = d0
    got0 = life.timings(tb)
    life.close(top)
    for name, got, want in (("the sub-request of the stream that started first and ended first", got_a, (8.0, 10.0)), ("the sub-request of the other stream", got_b, (9.0, 12.0)),
                            ("the logical request", got0, (8.0, 12.0))):
        if got != want:
            return f"{name} (wire {want[0]} .. {want[1]}) is recorded with {got[0]} .. {got[1]}"
    return None


def stream_task_rule(chk, rid, R, rs, mod):
    tasks = _stream_tasks(rs, mod)
    if not tasks:
        nested = [n for n in walk_body(rs) if isinstance(n, ast.Call) and isinstance(n.func, ast.Attribute) and n.func.attr == rs.name]
        if nested:
            chk.unknown(rid, "composite: how a nested stream is started (asyncio.create_task / ensure_future of run_stream(...)) was not located", nested[0])
        else:
            chk.unknown(rid, "composite: run_stream starts no nested stream", rs)
        return
    for call, _ in tasks:
        kind, how = _task_context(call, rs, mod)
        if kind is None:
            chk.unknown(rid, f"composite: the context the stream task runs in could not be traced ({how})", call)
            continue
        try:
            try:
                defect = concurrent_streams(R, shared=(kind == "shared"))
            except _Defect as x:
                defect = str(x)
        except (_Stuck, _Raises) as x:
            chk.unknown(rid, f"the life cycle of two concurrent streams could not be evaluated ({type(x).__name__[1:].lower()}: {x})", call)
            continue
        chk.ob(rid, "composite: every stream task runs in a contextvars.Context of its own (a copy of its creator's): two streams whose sub-requests do not finish in reverse "
               "order of their start each read exactly their own span", defect is None, call, how + ("" if defect is None else f" — {defect}"),
               key=f"{_R}:Composite.{rs.name}:stream-task-context")


_STREAM_FAILURES = ("elastic_transport.TransportError", "elasticsearch.ApiError")  # what a failing sub-request raises and execute_single turns into a sample (on-error=continue)


def _absorbed(repo, hier, cands) -> list:
    """those of the exception classes `cands` that an absorbing handler of the executor's execute_single catches: the composite's failure still yields a sample"""
    from sa.exc import handler_type_names

    drv = repo.module(_D)
    es = drv.func("execute_single")
    g = cfg_of(es)
    out = []
    for t in (n for n in walk_body(es) if isinstance(n, ast.Try)):
        for h in t.handlers:
            if any(g.exit.id in g.reachable([x]) for x in g.by_ast.get(id(h), [])):
                out += [c for c in cands if c not in out and hier.catches(handler_type_names(h, drv), c)]
    return out


def _whole_list(e, names) -> bool:
    """e denotes every element of one of the lists `names`: the list itself, list(L) / tuple(L) / reversed(L) / L.copy() / L[:]"""
    if isinstance(e, ast.Name):
        return e.id in names
    if isinstance(e, ast.Call) and isinstance(e.func, ast.Name) and e.func.id in ("list", "tuple", "reversed") and len(e.args) == 1 and not e.keywords:
        return _whole_list(e.args[0], names)
    if isinstance(e, ast.Call) and isinstance(e.func, ast.Attribute) and e.func.attr == "copy" and not e.args:
        return _whole_list(e.func.value, names)
    if isinstance(e, ast.Subscript) and isinstance(e.slice, ast.Slice) and e.slice.lower is None and e.slice.upper is None and e.slice.step is None:
        return _whole_list(e.value, names)
    return False


def _cancel_all_sites(fn, names, cls_methods, depth=0):
    """(statements of fn that cancel EVERY not yet finished task of the lists `names`, oddities): a loop / comprehension over the whole list whose body calls <element>.cancel()
    guarded by nothing but `not <element>.done()`; or a call self.m(L) of a helper of the class that does so with its parameter"""
    sites, odd = [], []
    for n in walk_body(fn):
        if isinstance(n, ast.Call) and isinstance(n.func, ast.Attribute) and n.func.attr == "cancel" and isinstance(n.func.value, ast.Name) and not n.args:
            x = n.func.value.id
            loop = next((a for a in source.ancestors(n) if (isinstance(a, (ast.For, ast.AsyncFor)) and isinstance(a.target, ast.Name) and a.target.id == x)
                         or (isinstance(a, (ast.ListComp, ast.GeneratorExp, ast.SetComp)) and any(isinstance(gn.target, ast.Name) and gn.target.id == x for gn in a.generators))), None)
            if loop is None:
                continue
            it = loop.iter if isinstance(loop, (ast.For, ast.AsyncFor)) else next(gn.iter for gn in loop.generators if isinstance(gn.target, ast.Name) and gn.target.id == x)
            if not any(isinstance(m, ast.Name) and m.id in names for m in ast.walk(it)):
                continue
            if not _whole_list(it, names):
                odd.append((n, f"the clean-up iterates over `{short(it, 40)}`, not over the whole task list"))
                continue
            gs = guards(n, stop=loop, path_sensitive=True) + ([(c, True) for gn in loop.generators for c in gn.ifs] if not isinstance(loop, (ast.For, ast.AsyncFor)) else [])
            bad = [t for t, pol in gs if not ((u(t) == f"{x}.done()" and not pol) or (u(t) == f"not {x}.done()" and pol))]
            if bad:
                odd.append((n, f"`{x}.cancel()` is guarded by `{short(bad[0], 40)}`"))
                continue
            sites.append(loop if isinstance(loop, (ast.For, ast.AsyncFor)) else source.enclosing_stmt(loop))
        elif isinstance(n, ast.Call) and depth < 2 and isinstance(n.func, ast.Attribute) and isinstance(n.func.value, ast.Name) and n.func.value.id in ("self", "cls") \
                and n.func.attr in cls_methods and cls_methods[n.func.attr] is not fn:
            callee = cls_methods[n.func.attr]
            try:
                b = source.bind_args(n, callee)
            except Exception:  # noqa: BLE001 - a call that does not fit the helper's signature is not a clean-up call we understand
                continue
            pn = {k for k, v in b.items() if isinstance(v, ast.Name) and v.id in names}
            if pn:
                s2, o2 = _cancel_all_sites(callee, pn, cls_methods, depth + 1)
                if s2:
                    sites.append(source.enclosing_stmt(n))
                odd += o2
    return sites, odd


def stream_failure_rule(chk, rid, repo, rs, mod, cls_methods):
    """A stream task that fails ends its composite (the failure surfaces where the composite awaits its stream tasks); the sibling tasks must not go on issuing sub-requests on
    behalf of a logical request whose sample has already been taken. Decided on the CFG of run_stream, per await of the stream tasks and per exception class of a failing
    sub-request that still yields a sample: the first interceptor of the class among the exceptional successors of the await must lead through a statement that cancels every
    unfinished task of the list before the failure leaves run_stream. An await of the tasks that lies outside every clean-up region (F60: the trailing drain after the handler)
    is falsified like one whose handler does not catch the class."""
    from sa.exc import Hierarchy, handler_type_names

    tasks = _stream_tasks(rs, mod)
    names = set()
    for call, _ in tasks:
        p_ = source.parent(call)
        if isinstance(p_, ast.Call) and isinstance(p_.func, ast.Attribute) and p_.func.attr == "append" and isinstance(p_.func.value, ast.Name) and call in p_.args:
            names.add(p_.func.value.id)
    if not names:
        chk.unknown(rid, "composite: the list that collects the stream tasks (<list>.append(<task>)) was not located in run_stream", rs)
        return
    drains = [n for n in walk_body(rs) if isinstance(n, ast.Await) and any(isinstance(m, ast.Name) and m.id in names and isinstance(m.ctx, ast.Load) for m in ast.walk(n.value))]
    if not drains:
        chk.unknown(rid, f"composite: no await of the stream tasks ({sorted(names)}) located in run_stream", rs)
        return
    hier = Hierarchy()
    classes = _absorbed(repo, hier, _STREAM_FAILURES)
    if not classes:
        raise AnchorMissing("execute_single: no absorbing handler for the failure classes of a sub-request (which failed composites still produce a sample?)")
    sites, odd = _cancel_all_sites(rs, names, cls_methods)
    g = cfg_of(rs)
    through = [x for s in sites for x in g.nodes_of(s)]
    labels = ['between-items' if source.enclosing(d, _LOOPS) is not None else 'trailing' for d in drains]  # awaited before the next item of the stream / after the last one
    for i, d in enumerate(drains):
        label = labels[i] + (f'#{labels[:i].count(labels[i]) + 1}' if labels.count(labels[i]) > 1 else '')
        dn = g.node_of(d)
        exc_succ = [g.nodes[y] for (y, lab) in g.succ[dn.id] if not g.normal_edge(dn.id, y, lab)]
        for c in classes:
            first = None
            for x in exc_succ:
                if x.kind == "except" and not hier.catches(handler_type_names(x.ast, mod), c):
                    continue
                first = x
                break
            where = f"{_R}:Composite.{rs.name}:siblings-cancelled:{label}:{c}"
            inst = f"composite: when a stream task fails with {c} where the composite awaits its streams, every unfinished sibling task is cancelled before the failure leaves run_stream"
            if first is None or first is g.raise_exit:
                chk.ob(rid, inst, False, d, f"no handler / finally of run_stream intercepts a {c} raised by the await at line {d.lineno} "
                       + (f"(handlers: {[u(x.ast.type) if x.ast.type is not None else 'bare' for x in exc_succ if x.kind == 'except']})" if any(x.kind == 'except' for x in exc_succ) else
                          "(the await is outside every clean-up region of run_stream)") + ": the sibling streams keep sending sub-requests "
                       "after the composite's end was recorded", key=where)
                continue
            if not through and odd:
                chk.unknown(rid, f"composite: the clean-up of the stream tasks was not recognised ({odd[0][1]})", odd[0][0])
                continue
            away = g.reachable([first], avoid=through)
            ok = bool(through) and g.raise_exit.id not in away and g.exit.id not in away
            chk.ob(rid, inst, ok, d, f"await at line {d.lineno}, intercepted at line {getattr(first.ast, 'lineno', '?')}; {len(sites)} cancel-all statement(s)"
                   + ("" if ok else " — a way from the interceptor out of run_stream passes no statement that cancels the unfinished tasks"), key=where)


def holder_variable_rule(chk, rid, repo, R):
    """ONE ContextVar for the whole process: the holder's methods are classmethods that resolve `cls.<variable>`, while other code addresses the holder by its base class
    (the node-level failure hook) or by a subclass (the client, the trace hooks, the serializer). All of them reach the same timing state only if no class deriving from the
    holder, and no assignment anywhere in the package, rebinds the variable's attribute to another object."""
    cv, base = R.cv, R.RCH.name
    for rel in repo.package_files("esrally"):
        try:
            text = repo.text(rel)
        except AnchorMissing:
            continue
        if cv not in text and base not in text:
            continue
        mod = repo.module(rel)
        holders = _holder_names(mod) | ({base} if rel == _C else set())
        if not holders:
            continue
        chk.use(mod)

        def same_variable(v, _holders=holders):
            return isinstance(v, ast.Attribute) and v.attr == cv and last_attr(v.value) in _holders | {"cls", "self"}

        for c in mod.classes():
            if c.name not in holders or (rel == _C and c is R.RCH):
                continue
            rebinds = [n for n in c.body if isinstance(n, (ast.Assign, ast.AnnAssign)) and n.value is not None
                       and any(isinstance(t, ast.Name) and t.id == cv for t in (n.targets if isinstance(n, ast.Assign) else [n.target]))]
            bad = [n for n in rebinds if not same_variable(n.value)]
            chk.ob(rid, f"{c.name} (a request context holder) reaches the timing state through the holder's own ContextVar: its class body does not rebind `{cv}`", not bad,
                   bad[0] if bad else c, "" if not bad else f"`{short(bad[0], 70)}`: methods resolved through {c.name} (cls.{cv}) and code that addresses {base} directly "
                   f"(the node-level failure hook ends a failed request with {base}.on_request_end()) now use two different variables - the end of a request recorded through "
                   "one is invisible through the other", key=f"{rel}:{c.name}:holder-variable")
        for n in ast.walk(mod.tree):
            tg = n.targets if isinstance(n, ast.Assign) else [n.target] if isinstance(n, (ast.AnnAssign, ast.AugAssign)) else []
            for t in tg:
                if isinstance(t, ast.Attribute) and t.attr == cv and (last_attr(t.value) in holders or (last_attr(t.value) == "cls" and getattr(source.enclosing(n, ast.ClassDef), "name", None) in holders)):
                    if getattr(n, "value", None) is not None and same_variable(n.value):
                        continue
                    chk.ob(rid, f"no assignment rebinds the request context variable of a holder class (`{u(t)}`)", False, n,
                           f"`{short(n, 70)}`: from here on {u(t.value)} and the other holder classes use different variables", key=f"{rel}:{u(t)}:holder-variable-assigned")


def run(chk):
    repo = chk.repo
    ctx, run_, drv = repo.module(_C), repo.module(_R), repo.module(_D)
    chk.use(ctx, run_, drv)
    chk.explanation = (
        "Decides the merge operator and isolation skeleton: values propagated from a child context to its parent on exit are merged with a commutative, idempotent, "
        "None-safe operator (min for the start, max for the end) so that the exit order of concurrent children cannot matter (the holder methods are run abstractly, "
        "together with the helpers they call, on a small value domain); all timing state is reached through one "
        "ContextVar whose only set installs a fresh dict and is reset on exit; propagation only when a parent exists (guards evaluated on representative token / exception "
        "states); the executor and the composite's per-operation wrapper - each analysed together with the helpers of its class / module that it runs inline (awaited on the "
        "spot), values followed across them: parameters bound to arguments, results to what the helper returns, fields of a record to the constructor's arguments - "
        "each enclose exactly one delegate call in their own context and read start/end from that context; the wrapper computes over start/end only when both are present "
        "(decided on None / 0.0 / ordinary values); a failed wire request's end is recorded by the node-level perform_request handler on every exceptional exit. "
        "The life cycle of the context OBJECTS (factory, __init__, __enter__, wire requests, __exit__; the ContextVar modelled per asyncio task) is run abstractly for "
        "consecutive, nested and concurrent requests - the manager obtained the way the executor's loop obtains it - : every entry installs a dict object of its own, so "
        "that a sub-request task that outlives its request cannot write into the client's next request, and every context reads exactly its own span. "
        "No class deriving from the holder (and no assignment in the package) rebinds the holder's context variable: base class and subclasses resolve one variable object. "
        "The composite's stream tasks: each runs in a contextvars.Context of its own (how create_task is handed its context is traced; the life cycle of two concurrent "
        "streams that do not finish in LIFO order is run abstractly with the binding shared or per task accordingly), and a stream failure that still yields a sample passes, "
        "on the CFG of run_stream, a statement cancelling every unfinished sibling task before it leaves (an await of the tasks outside every clean-up region is falsified: F60). "
        "Roles (holder attribute, dict / token attributes, merge methods, context factory, sampler call) are derived from data flow, not from names of locals or attributes."
    )
    chk.not_decided = "asyncio scheduling, aiohttp trace timing (which signals aiohttp emits when), clock behaviour."
    R = context_roles(ctx)
    RCM, RCH, hm, mm = R.RCM, R.RCH, R.hm, R.mm

    # Each rule is stated in a section of its own: an anchor that cannot be located makes THAT rule inconclusive (exit 2) and does not hide what the other rules find.

    def o18_1():
        # ---- O18.1 order-insensitive propagation -------------------------------------------------------------------------------------------
        chk.rule("O18.1", "values propagated from a child context to its parent at exit are merged with a commutative, idempotent, None-safe operator: min for the start, max for the end", 4,
                 "two concurrent streams where the later-started one finishes first: the logical request's start is not the earliest start (or a sub-context without a request overwrites a value with None)")
        ex, props = _propagations(R)
        _need(R, "ctx_attr", "token_attr")
        want = {"request_start": "min", "request_end": "max"}
        seen = set()
        undecided = False
        merge_of = {}
        for c, chain in props:
            f = hm[c.func.attr]
            if not c.args and not c.keywords:
                chk.ob("O18.1", f"propagated value of {c.func.attr}()", False, c, "not the context's own start/end: nothing of the child context is handed to the parent")
                continue
            arg = _chain_arg(chain, c.args[0] if c.args else c.keywords[0].value)  # the propagated value, seen through single-assignment locals and helper parameters
            try:
                key = _own_key(arg, R)
            except CannotEval as x:
                chk.unknown("O18.1", f"the value `{short(arg, 50)}` propagated by __exit__ cannot be evaluated on the context's own dict ({x})", c)
                undecided = True
                continue
            if key is None:
                chk.ob("O18.1", f"propagated value {u(arg)}", False, c, "not the context's own start/end")
                continue
            seen.add(key)
            merge_of.setdefault(key, f)
            kind, none_safe, store = merge_kind(f, key)
            site = store if store is not None else f
            if kind == "unknown":
                chk.unknown("O18.1", f"the merge performed by {f.name} for '{key}' could not be evaluated (statement outside the interpreted fragment)", f)
            else:
                chk.ob("O18.1", f"{key} merged into the parent with {want[key]}", kind == want[key], site,
                       f"operator of {f.name}: {kind}" + ("" if kind == want[key] else " — order-sensitive or wrong direction: the parent does not record the earliest start / latest end of all sub-requests"),
                       key=f"{_C}:{f.name}:merge:{key}")
            if none_safe is None:
                chk.unknown("O18.1", f"whether {f.name} ignores a missing (None) value could not be evaluated", f)
            else:
                chk.ob("O18.1", f"{key} merge ignores a missing child value", none_safe, site, "" if none_safe else "a child context without a request propagates None", key=f"{_C}:{f.name}:none-safe:{key}")
        if not undecided:
            chk.ob("O18.1", "both start and end are propagated", seen == {"request_start", "request_end"}, ex, f"propagated: {sorted(seen)}")
        # the manager's properties read the same keys of the dict that __enter__ installed (decided by value: a dict with a distinct marker per key; an empty dict -> None)
        for p in _KEYS:
            f = mm.get(p)
            if f is None or "property" not in {last_attr(d) for d in f.decorator_list}:
                chk.unknown("O18.1", f"RequestContextManager has no property {p}", RCM)
                continue
            read = ast.parse(f"self.{p}", mode="eval").body
            try:
                ok = _own_key(read, R) == p
            except CannotEval as x:
                chk.unknown("O18.1", f"the value of the context property {p} cannot be evaluated ({x})", f)
                continue
            detail = ""
            if ok:
                try:
                    v = _ev(_props_inlined(read, R), {"self": Record(**{R.ctx_attr: {}})})
                    ok, detail = v is None, "" if v is None else f"without a wire request the property yields {v!r}, not None"
                except CannotEval as x:
                    if str(x).endswith(": KeyError"):
                        ok, detail = False, "a context without a wire request (a legal leaf, F38) raises KeyError instead of yielding None"
            chk.ob("O18.1", f"context property {p} reads key '{p}'", ok, f, detail)
        # wire callbacks route through the same merge with the monotonic clock: for every reachable state and clock reading t the callback leaves the context exactly as merge(t) does
        for cb, key in (("on_request_start", "request_start"), ("on_request_end", "request_end")):
            f, upd = hm.get(cb), merge_of.get(key) or _merge_by_value(hm, key)
            if f is None or upd is None:
                chk.unknown("O18.1", f"wire callback {cb} / the merge method for '{key}' not located", RCH)
                continue
            ok, detail = True, ""
            try:
                for _, st in _states(key):
                    for t in _NEW:
                        try:
                            a = run_holder(f, [], st, clock=t).ctxd
                        except _Raises:
                            a = _RAISED
                        try:
                            b = run_holder(upd, [t], st).ctxd
                        except _Raises:
                            b = _RAISED
                        if ok and (a is _RAISED or a != b):
                            ok, detail = False, f"on context {st} at clock reading {t}: {cb}() leaves {'an exception' if a is _RAISED else a}, {upd.name}({t}) leaves {'an exception' if b is _RAISED else b}"
            except _Stuck as x:
                chk.unknown("O18.1", f"{cb} could not be evaluated ({x})", f)
                continue
            chk.ob("O18.1", f"{cb} records perf_counter() through {upd.name}", ok, f, detail)

        trace_hook_table(chk, "O18.1", repo)

    def o18_5():
        # ---- O18.5 the end of a FAILED wire request (F39) -------------------------------------------------------------------------------------------
        chk.rule("O18.5", "a wire request that fails has its end recorded when it fails, also after its response headers have arrived: the client's HTTP node overrides the library's "
                 "perform_request, and every transport-level failure that still yields a sample passes an unconditional end-recorder call of the request context holder before it "
                 "leaves the node, and still leaves it as a failure", 2,
                 "a request that times out / is disconnected while its body is read is recorded as ending when its HEADERS arrived (aiohttp's on_request_exception is only signalled "
                 "until then): the recorded end is not the latest end of all HTTP requests of the logical request")
        nf = node_failure_end(repo)
        nname = f"{nf['cls'].name}.{_NODE_API}"
        for c, recorded, propagates, detail in nf["rows"]:
            chk.ob("O18.5", f"a wire request failing with {c} ends (holder end-recorder, unconditional) before the failure leaves the node", recorded, nf["site"], detail,
                   key=f"{_A}:{nname}:end-on-failure:{c}")
            chk.ob("O18.5", f"a wire request failing with {c} still fails (the node-level handler re-raises)", propagates, nf["site"],
                   "" if propagates else "a path through the interceptor completes normally: the failed request is reported as a response", key=f"{_A}:{nname}:failure-propagates:{c}")

    def o18_2():
        # ---- O18.2 isolation ---------------------------------------------------------------------------------------------------------------------
        chk.rule("O18.2", "all timing state is reached through one ContextVar; its only set installs a fresh dict; reset(token) on exit before propagation; propagation only when the token had an old value; "
                 "no module- or class-level mutable timing state", 6,
                 "two clients in one process: one client's request timings leak into the other's samples")
        ex, props = _propagations(R)
        _need(R, "ctx_attr", "token_attr")
        cvars = [n for n in RCH.body if isinstance(n, ast.Assign) and isinstance(n.value, ast.Call) and last_attr(n.value.func) == "ContextVar"]
        chk.ob("O18.2", "one ContextVar holds the request context", len(cvars) == 1, cvars[0] if cvars else RCH, f"{len(cvars)} ContextVar(s)")
        cv = R.cv
        holder_variable_rule(chk, "O18.2", repo, R)  # ... and nothing derives a second one: every holder class resolves the same variable object
        mut = [n for n in list(RCH.body) + list(ctx.tree.body) if isinstance(n, ast.Assign) and isinstance(n.value, (ast.Dict, ast.List, ast.Set)) or
               (isinstance(n, ast.Assign) and isinstance(n.value, ast.Call) and dotted(n.value.func) in ("dict", "list", "set", "collections.defaultdict"))]
        mut = [n for n in mut if _used_as_state(n, ctx)]  # a literal table that is only ever read (membership, iteration, lookup) is not state
        chk.ob("O18.2", "no module/class-level mutable container in the context module", not mut, mut[0] if mut else RCH,
               "" if not mut else f"`{short(mut[0], 60)}` is written to, handed on or stored by a function of the module")
        sets = [n for n in ast.walk(ctx.tree) if isinstance(n, ast.Call) and last_attr(n.func) == "set" and isinstance(n.func, ast.Attribute) and last_attr(n.func.value) == cv]
        ok = len(sets) == 1
        fresh = False
        if ok and sets[0].args:
            a = sets[0].args[0]
            f = source.enclosing_func(sets[0])
            d = _alias_root(a, local_defs(f)) if f is not None else a  # the installed value, through the local it was built in
            d = local_defs(f).get(d.id, d) if isinstance(d, ast.Name) and f is not None else d
            fresh = _fresh_dict(d, f, R)
        if ok and fresh is None:
            chk.unknown("O18.2", "the value installed by ContextVar.set is a parameter of the init method: whether it is a fresh dict could not be traced", sets[0])
        else:
            chk.ob("O18.2", "single ContextVar.set, installing a fresh dict", ok and bool(fresh), sets[0] if sets else RCH, f"{len(sets)} set site(s), fresh={fresh}")
        if sets and source.enclosing_func(sets[0]) is not None:
            f = source.enclosing_func(sets[0])
            pos_d, pos_t, _ = _init_shape(f, cv)
            r = [n for n in walk_body(f) if isinstance(n, ast.Return)]
            ok = len(r) == 1 and isinstance(r[0].value, ast.Tuple) and len(r[0].value.elts) == 2 and pos_d is not None and pos_t is not None
            chk.ob("O18.2", "init returns (dict, token)", ok, f, "" if ok else "the init method does not return exactly the dict it installed and the token of that set()")
        ent = mm.get("__enter__")
        if ent is None or R.unpack is None:
            chk.unknown("O18.2", "the assignment in RequestContextManager.__enter__ that takes the result of the holder's init method was not located", ent if ent is not None else RCM)
        else:
            t = R.unpack.targets[0]
            if isinstance(t, ast.Tuple):
                ok = len(t.elts) == 2 and all(is_self_attr(e) for e in t.elts) and t.elts[0].attr != t.elts[1].attr and R.ctx_attr is not None and R.token_attr is not None
            else:  # the pair is kept in a local and taken apart by position: the two roles (derived from the positions, see context_roles) live in two different attributes
                ok = R.ctx_attr is not None and R.token_attr is not None and R.ctx_attr != R.token_attr
            chk.ob("O18.2", "__enter__ stores (ctx, token) from init_request_context()", ok, R.unpack, "" if ok else f"the (dict, token) pair is unpacked into `{u(t)}`")
        resets = _restore_calls(ex, R)
        if not resets:  # __exit__ and everything it calls on the holder were located: nothing restores the enclosing context
            chk.ob("O18.2", "context restored (reset(token)) unconditionally before propagation", False, ex, "nothing reached from __exit__ resets the ContextVar")
        else:
            rc_, rch_ = resets[0]
            targ = rc_.args[0] if len(rc_.args) == 1 and not rc_.keywords else (rc_.keywords[0].value if not rc_.args and len(rc_.keywords) == 1 and rc_.keywords[0].arg else None)  # the one argument, positional or by keyword
            ok = len(resets) == 1 and targ is not None and u(_chain_arg(rch_, targ)) == f"self.{R.token_attr}" and not any(guards(x) for x in rch_) \
                and all(_chain_dominated(pch, rch_) for _, pch in props)
            chk.ob("O18.2", "context restored (reset(token)) unconditionally before propagation", ok, rc_, "")
        # every ENTRY installs a dict object of its own (not only: the set site's argument is spelled like a new dict): the life cycle factory -> __init__ -> __enter__ -> wire
        # requests -> __exit__ is run abstractly on objects, for consecutive, nested and concurrent contexts, each opened through a new manager from the factory
        if not R.factories:
            chk.unknown("O18.2", "RequestContextHolder: no method returns a new RequestContextManager (the context factory): the life cycle of a request context was not evaluated", RCH)
        else:
            for name, scenario in (("consecutive", lambda: consecutive_requests(R, reuse_manager=False)), ("nested and concurrent", lambda: nested_and_concurrent_requests(R))):
                try:
                    try:
                        defect = scenario()
                    except _Defect as x:
                        defect = str(x)
                    chk.ob("O18.2", f"{name} request contexts, each entered through a new manager: every entry installs a dict object of its own, empty of timings, and every context "
                           "reads exactly the span of its own wire requests and of its sub-contexts", defect is None, ent if ent is not None else RCM, defect or "",
                           key=f"{_C}:RequestContextManager:life-cycle:{name.split()[0]}")
                except (_Stuck, _Raises) as x:
                    chk.unknown("O18.2", f"the life cycle of {name} request contexts could not be evaluated ({type(x).__name__[1:].lower()}: {x})", ent if ent is not None else RCM)
        # (the obligation "every normal exit of __exit__ has restored the enclosing context" is stated by propagation_guard_rule below, which C04 shares)
        if len(R.restore) != 1:
            chk.unknown("O18.2", f"{len(R.restore)} holder methods reset the ContextVar", RCH)
        else:
            rc = R.restore[0]
            ok = any(len(n.args) == 1 and not n.keywords and source.inline(n.args[0], local_defs(rc)) in _value_params(rc) for n in _cv_calls(rc, cv, "reset"))
            chk.ob("O18.2", "restore_context resets the ContextVar with the token", ok, rc, "")
        propagation_guard_rule(chk, "O18.2", ctx)
        # __exit__ does not swallow exceptions: whatever it returns is a falsy constant
        exdefs = local_defs(ex)
        rets = [n for n in walk_body(ex) if isinstance(n, ast.Return)]
        ok = all(r.value is None or (isinstance(source.inline_node(r.value, exdefs), ast.Constant) and not source.inline_node(r.value, exdefs).value) for r in rets)
        chk.ob("O18.2", "__exit__ never swallows exceptions", ok, ex, "")
        # every writer goes through ContextVar.get(): the dict a holder method stores into is the current context's (traced through locals and, for a helper, through its callers)
        for name, f in list(hm.items()) + [(x.name, x) for x in ctx.tree.body if isinstance(x, source.FUNC_TYPES)]:
            for n in walk_body(f):
                if isinstance(n, ast.Subscript) and isinstance(n.value, ast.Name) and isinstance(n.ctx, ast.Store):
                    ok = _dict_origin_ok(n.value.id, f, R)
                    if ok is None:
                        chk.unknown("O18.2", f"{name}: the origin of the dict `{n.value.id}` that is written to could not be traced", n)
                        continue
                    d = local_defs(f).get(n.value.id)
                    chk.ob("O18.2", f"{name}: timing written into the current context's dict", ok, n, f"{n.value.id} = {u(d) if d is not None else '(not a single-assignment local)'}")

    def o18_3():
        # ---- O18.3 enclosure -------------------------------------------------------------------------------------------------------------------------
        chk.rule("O18.3", "the executor's runner invocation is inside a fresh request context per request and reads start/end from that context; the composite's per-operation wrapper "
                 "encloses exactly the delegate call in its own context and computes its service time from that context; every sub-request of the composite is wrapped", 6,
                 "a sub-request's timing covers its siblings, or the logical request misses sub-requests issued outside its context")
        if not R.factories:
            raise AnchorMissing("RequestContextHolder: no method returns a new RequestContextManager (the context factory)")
        # The request step is analysed TOGETHER WITH the helpers of the executor it runs inline (an extracted `_execute_request`, a helper that opens the context or records the
        # sample): every construct is a chain [call site in __call__, call site in the helper, ..., node], every value is seen across the helpers (parameters bound to the
        # arguments of the call site, results bound to what the helper returns).
        ecls = drv.cls("AsyncExecutor")
        step = _Step(drv, ecls, drv.methods(ecls).get("__call__"), stop=(_RUNNER,))
        call, L = _request_loop(drv, step)
        fns = step.functions(call)
        shared = {u(n.targets[0]) for f_, _ in fns for n in walk_body(f_) if isinstance(n, ast.Assign) and isinstance(n.targets[0], ast.Attribute)  # instance state holding a context object
                  for v in [source.inline_node(n.value, local_defs(f_))] if isinstance(v, ast.Call) and isinstance(v.func, ast.Attribute) and v.func.attr in R.factories}
        allw = [(w, i, how, sites + [w]) for f_, sites in fns for w, i, how in _context_withs(f_, R.factories, step, shared)]
        withs = [x for x in allw if L in list(source.ancestors(x[3][0]))]
        if not allw:
            chk.unknown("O18.3", "executor: no with statement entering a request context (call of the holder's context factory) located in AsyncExecutor.__call__ or in a helper "
                        "of the executor that it runs inline", L)
        else:
            # once per request: the chain enters the loop directly (its first node is a statement of the loop, not of a loop nested in it) and no helper on the way loops around it
            ok = len(withs) == 1 and withs[0][2] == "call" and source.enclosing(withs[0][3][0], _LOOPS) is L and all(source.enclosing(x, _LOOPS) is None for x in withs[0][3][1:])
            chk.ob("O18.3", "executor: one fresh request context per request (inside the loop)", ok, withs[0][0] if withs else allw[0][0], "" if ok else
                   f"{len(withs)} context(s) entered inside the request loop, {len(allw) - len(withs)} outside" + ("; the context object is kept in instance state" if any(h == "attr" for _, _, h, _ in allw) else ""))
        if withs and withs[0][2] == "call":
            # ... and a fresh context means a fresh DICT: whatever still refers to the dict of an earlier request of this client (a sub-request task of a composite that
            # outlives its request) must not reach the next request. Decided by running the life cycle of two consecutive requests abstractly, with the context manager object
            # obtained the way the loop obtains it (a new one per request, or one created before the loop and entered again).
            per = _manager_per_request(withs[0][0], withs[0][1], L, call, step)
            if per is None:
                chk.unknown("O18.3", f"executor: where the context manager `{short(withs[0][1].context_expr, 40)}` that the request loop enters is created could not be traced", withs[0][0])
            else:
                try:
                    try:
                        defect = consecutive_requests(R, reuse_manager=not per)
                    except _Defect as x:
                        defect = str(x)
                    chk.ob("O18.3", "executor: consecutive requests of a client run on distinct, initially empty context dicts (a sub-request task that outlives its request cannot "
                           "write into the next one)", defect is None, withs[0][0], defect or "", key=f"{_D}:AsyncExecutor.__call__:context-dict-per-request")
                except (_Stuck, _Raises) as x:
                    chk.unknown("O18.3", f"executor: the life cycle of two consecutive request contexts could not be evaluated ({type(x).__name__[1:].lower()}: {x})", withs[0][0])
        if withs:
            W, wchain = withs[0][0], withs[0][3]
            FW = source.enclosing_func(W)
            cvn = _bound_context(W, withs[0][1])
            ctxname = step.tag(cvn, FW)  # how the context object of this request is spelled by step.resolve()
            in_loop = step.reached(L, call)

            def is_run(n, f_):
                return isinstance(n, ast.Call) and last_attr(_alias_root(n.func, step.defs(f_)[0])) == _RUNNER

            runs = [(n, wchain[:-1] + ch) for n, ch in step.reached(W, FW) if is_run(n, source.enclosing_func(n))]
            allruns = [(n, ch) for n, ch in in_loop if is_run(n, source.enclosing_func(n))]
            if not allruns:
                chk.unknown("O18.3", "executor: the runner invocation (execute_single) was not located in the request loop", L)
            else:
                chk.ob("O18.3", "executor: runner invoked inside its context", len(runs) == 1, W, "" if runs else "the runner is invoked outside the request context")
            reads = [(n, ch) for n, ch in in_loop if isinstance(n, ast.Attribute) and n.attr in _KEYS and isinstance(n.value, ast.Name) and isinstance(n.ctx, ast.Load)]
            bound_by_with = {(id(source.enclosing_func(w)), i.optional_vars.id) for w, i, _, _ in allw if isinstance(i.optional_vars, ast.Name)}
            mine, foreign, opaque = [], [], []
            for r, ch in reads:  # the object that is read, by data flow: the local that THIS request's with statement binds / another request context / something else
                v = step.resolve(r, source.enclosing_func(r), ch[:-1])  # (the whole read: a field of a record in between is seen through)
                root = v.value if isinstance(v, ast.Attribute) and v.attr in _KEYS else v
                if isinstance(root, ast.Name) and root.id == ctxname:
                    mine.append((r, ch))
                elif isinstance(root, ast.Name) and (id(getattr(root, "_owner", None)), getattr(root, "_orig", None)) in bound_by_with:
                    foreign.append((r, ch))
                else:
                    opaque.append((r, ch, root))
            if not mine and not foreign:
                chk.unknown("O18.3", "executor: no read of <context>.request_start / .request_end located in the request loop"
                            + (f" (`{short(opaque[0][0], 40)}` reads an object that is not recognised as a request context)" if opaque else ""), L)
            else:
                for r, _, root in opaque:
                    chk.unknown("O18.3", f"executor: `{short(r, 40)}` reads the start / end of `{short(root, 40)}`, which is not recognised as a request context", r)
                chk.ob("O18.3", "executor: start/end read from that context object", not foreign, (foreign or mine)[0][0],
                       "" if not foreign else f"`{short(foreign[0][0], 40)}` reads another request context than the one this request runs in (`{cvn}`)")
                # reads happen after the runner returned (decided in the function in which the chain of the read and the chain of the runner invocation part)
                if runs and mine:
                    ok = all(_chain_dominated(ch, runs[0][1]) for _, ch in mine)
                    chk.ob("O18.3", "executor: start/end read after the runner returned", ok, mine[0][0], "")
            # what the sample records as the start of the logical request is the context's (earliest) request start, not another clock reading of the same type.
            # The sampler call is located by data flow: the call reached from the loop whose callee - seen through hoisted locals - is the `add` method and whose arguments bind
            # Sampler.add's request_start parameter
            sadd = drv.methods(drv.cls("Sampler")).get("add")
            if sadd is None:
                raise AnchorMissing("Sampler.add")
            adds = []
            for n, ch in in_loop:
                if isinstance(n, ast.Call):
                    fn = _alias_root(n.func, step.defs(source.enclosing_func(n))[0])
                    if isinstance(fn, ast.Attribute) and fn.attr == sadd.name and "request_start" in source.bind_args(n, sadd):
                        adds.append((n, ch))
            if not adds:
                chk.unknown("O18.3", "executor: the call that hands the sample to Sampler.add was not located in the request loop", L)
            else:
                add, ach = adds[0]
                step.ambiguous.clear()
                gotn = step.resolve(source.bind_args(add, sadd).get("request_start"), source.enclosing_func(add), ach[:-1])
                got = u(gotn)
                base = gotn
                while isinstance(base, (ast.Attribute, ast.Subscript)):
                    base = base.value
                is_ctx = isinstance(base, ast.Name) and (base.id == ctxname or (id(getattr(base, "_owner", None)), getattr(base, "_orig", None)) in bound_by_with)
                if got != f"{ctxname}.request_start" and step.ambiguous:  # a local on the way is bound more than once: WHICH value reaches the sampler is not known
                    chk.unknown("O18.3", f"executor: the request_start handed to Sampler.add (`{short(gotn, 60)}`) depends on {sorted(step.ambiguous)}, bound more than once", add)
                elif got != f"{ctxname}.request_start" and isinstance(gotn, (ast.Attribute, ast.Subscript)) and not is_ctx:
                    # a field of an object that is not a request context and cannot be seen through (instance state, the result of a call that is not in view)
                    chk.unknown("O18.3", f"executor: the request_start handed to Sampler.add is `{short(gotn, 60)}`: what that field holds could not be traced", add)
                else:
                    chk.ob("O18.3", "executor: the sample's request_start is the context's request_start", got == f"{ctxname}.request_start", add, f"request_start := {short(gotn, 80)}",
                           key=f"{_D}:AsyncExecutor.__call__:sample-request-start")
        RT = run_.cls("RequestTiming")
        rt = run_.methods(RT).get("__call__")
        if rt is None:
            raise AnchorMissing("RequestTiming.__call__")
        # the wrapper, too, is analysed together with the helpers of its class that it runs inline (a helper that builds the timing record, that awaits the delegate, ...)
        wstep = _Step(run_, RT, rt)
        wfns = wstep.functions(rt)
        wshared = {u(n.targets[0]) for f_, _ in wfns for n in walk_body(f_) if isinstance(n, ast.Assign) and isinstance(n.targets[0], ast.Attribute)
                   for v in [source.inline_node(n.value, local_defs(f_))] if isinstance(v, ast.Call) and isinstance(v.func, ast.Attribute) and v.func.attr in R.factories}
        rw = [(w, i, how, sites + [w]) for f_, sites in wfns for w, i, how in _context_withs(f_, R.factories, wstep, wshared)]
        if not rw:
            chk.unknown("O18.3", "per-operation wrapper: no with statement entering a request context located in RequestTiming.__call__", rt)
        else:
            ok = len(rw) == 1 and rw[0][2] == "call"
            chk.ob("O18.3", "per-operation wrapper opens its own context", ok, rw[0][0], "" if ok else
                   ("the context object is kept in instance state: concurrent invocations of the wrapper share it" if any(h == "attr" for _, _, h, _ in rw) else f"{len(rw)} contexts"))
        if rw and rw[0][2] == "call":
            W, wchain = rw[0][0], rw[0][3]
            FW = source.enclosing_func(W)
            cvn = _bound_context(W, rw[0][1])
            ctxname = wstep.tag(cvn, FW)  # how the wrapper's own context object is spelled by wstep.resolve()
            everything = wstep.reached(rt, rt)
            inside = {id(n) for n, _ in wstep.reached(W, FW)}

            def seen(n, ch):
                return wstep.resolve(n, source.enclosing_func(n), ch[:-1])

            dels = [(n, ch) for n, ch in everything if isinstance(n, ast.Call) and u(_alias_root(n.func, wstep.defs(source.enclosing_func(n))[0])) == "self.delegate"]
            if not dels:
                chk.unknown("O18.3", "wrapper: the call of the wrapped runner (self.delegate) was not located", rt)
            else:
                ok = len(dels) == 1 and id(dels[0][0]) in inside
                chk.ob("O18.3", "wrapper: exactly one delegate call, inside the context", ok, dels[0][0], f"{len(dels)} delegate call(s)")
            st = [(n, ch) for n, ch in everything if isinstance(n, ast.Dict) and any(source.is_const(k, "service_time") for k in n.keys)]
            if not st:
                chk.unknown("O18.3", "wrapper: the timing record (a dict display with the key 'service_time') was not located", rt)
            else:
                d = dict((k.value, v) for k, v in zip(st[0][0].keys, st[0][0].values) if isinstance(k, ast.Constant))
                from sa.sym import parse_expr, rat_equal

                ok = rat_equal(seen(d["service_time"], st[0][1]), parse_expr(f"{ctxname}.request_end - {ctxname}.request_start")) \
                    and all(d.get(k_) is not None and u(seen(d[k_], st[0][1])) == f"{ctxname}.{k_}" for k_ in _KEYS)
                chk.ob("O18.3", "wrapper: service_time == ctx.request_end - ctx.request_start of its own context", ok, st[0][0], "")
            reads = [(n, ch) for n, ch in everything if isinstance(n, ast.Attribute) and n.attr in _KEYS and isinstance(n.value, ast.Name) and u(seen(n.value, ch)) == ctxname]
            if not reads or not dels:
                chk.unknown("O18.3", "wrapper: no read of the context's request_start / request_end located", rt)
            else:
                ok = all(_chain_dominated(ch, dels[0][1]) for _, ch in reads)
                chk.ob("O18.3", "wrapper: timings read after the delegate returned", ok, reads[0][0], "")
            # F38: a sub-request context without any wire request is a legal leaf of the context tree (get-async-search skips completed searches): its start and end are None.
            # Every arithmetic on the context's start / end must be unreachable for a missing value, and reachable for every pair of present values (0.0 is a time, not 'missing').
            # The guard facts are those of the whole chain (the call site of a helper that does the arithmetic included), each seen across the helpers.
            arith = [(n, ch) for n, ch in everything if isinstance(n, ast.BinOp) and isinstance(n.op, (ast.Sub, ast.Add)) and _mentions(seen(n, ch), ctxname, _KEYS)]
            wkey = f"{_R}:RequestTiming.__call__"
            if not arith:
                chk.unknown("O18.3", "wrapper: no computation over the context's request_start / request_end located (how is the sub-request's service time computed?)", st[0][0] if st else rt)
            for n, ch in arith:
                try:
                    table, facts = timing_presence_table(n, ctxname, {}, facts=[wstep.resolve(f, source.enclosing_func(x), ch[:i], opaque_calls=False) for i, x in enumerate(ch) for f in pat.fact_nodes(x)])
                except CannotEval as x:
                    chk.unknown("O18.3", f"wrapper: a guard of `{short(n, 50)}` that speaks about the context's start / end cannot be evaluated ({x})", n)
                    continue
                crash = sorted((k for k, reached in table.items() if reached and None in k), key=lambda k: (sum(v is not None for v in k), str(k)))  # the all-missing row first
                lost = sorted((k for k, reached in table.items() if not reached and None not in k), key=str)
                chk.ob("O18.3", "wrapper: no arithmetic on a missing start / end (a sub-request that sent no wire request)", not crash, n,
                       f"`{short(n, 50)}` under {facts or 'no guard on start / end'}" + ("" if not crash else f": evaluated for (start, end) = {crash[0]} -> TypeError, the task fails although "
                                                                                       "the composite's other sub-requests were timed"), key=f"{wkey}:timing-none-guard")
                chk.ob("O18.3", "wrapper: a sub-request that did send a request keeps its timing whatever the values (0.0 is a time)", not lost, n,
                       f"`{short(n, 50)}` under {facts or 'no guard on start / end'}" + ("" if not lost else f": skipped for (start, end) = {lost[0]}"), key=f"{wkey}:timing-kept-when-present")
        CO = run_.cls("Composite")
        rs = run_.methods(CO).get("run_stream")
        if rs is None:
            raise AnchorMissing("Composite.run_stream")
        rf = [n for n in walk_body(rs) if isinstance(n, ast.Call) and last_attr(n.func) == "runner_for"]
        if not rf:
            chk.unknown("O18.3", "composite: the dispatch of a sub-request to its runner (runner_for) was not located in run_stream", rs)
        else:
            sdefs = local_defs(rs)

            def wrapped(n):
                """the dispatched runner flows into the timing wrapper: directly, or through a single-assignment local every use of which is an argument of the wrapper"""
                p_ = source.parent(n)
                if isinstance(p_, ast.Call) and last_attr(p_.func) == RT.name and n in p_.args:
                    return True
                if isinstance(p_, ast.Assign) and len(p_.targets) == 1 and isinstance(p_.targets[0], ast.Name) and sdefs.get(p_.targets[0].id) is n:
                    uses = [x for x in walk_body(rs) if isinstance(x, ast.Name) and x.id == p_.targets[0].id and isinstance(x.ctx, ast.Load)]
                    return bool(uses) and all(isinstance(source.parent(x), ast.Call) and last_attr(source.parent(x).func) == RT.name and x in source.parent(x).args for x in uses)
                return False

            chk.ob("O18.3", "composite: every dispatched sub-request runner is wrapped in the timing wrapper", all(wrapped(n) for n in rf), rf[0], f"{len(rf)} dispatch site(s)")
        cc = run_.methods(CO).get("__call__")
        if cc is None:
            chk.unknown("O18.3", "Composite.__call__ not located", CO)
        else:
            cmeth = run_.methods(CO)

            def reaches_streams(fn, depth=0):  # __call__ itself or a method of the composite it calls as self.m(...)
                return any(isinstance(n, ast.Call) and (last_attr(n.func) == rs.name or (
                    depth < 3 and isinstance(n.func, ast.Attribute) and isinstance(n.func.value, ast.Name) and n.func.value.id == "self" and n.func.attr in cmeth
                    and cmeth[n.func.attr] is not fn and reaches_streams(cmeth[n.func.attr], depth + 1))) for n in walk_body(fn))

            ok = reaches_streams(cc)
            chk.ob("O18.3", "composite runs its streams from __call__", ok, cc, "")
        # O18.4 advisory: concurrent streams as tasks created in the composite's context
        ct = [n for n in walk_body(rs) if isinstance(n, ast.Call) and dotted(n.func) == "asyncio.create_task"]
        if not ct:
            chk.adv("O18.4", "composite streams are no longer started with asyncio.create_task inside run_stream (context chaining to the request's dict not established this way)", rs)

    def _composite():
        CO = run_.cls("Composite")
        rs = run_.methods(CO).get("run_stream")
        if rs is None:
            raise AnchorMissing("Composite.run_stream")
        return rs, run_.methods(CO)

    def o18_6():
        # ---- O18.6 concurrent streams do not share the binding of the context variable ------------------------------------------------------------
        chk.rule("O18.6", "every stream of a composite that runs as an asyncio task runs in a contextvars.Context of its own (a copy of its creator's context, sharing only the "
                 "enclosing request's dict): the request context a stream's sub-request installs and the token it resets are never seen by a sibling stream (the life cycle of "
                 "two concurrent streams is run abstractly with the binding as the composite creates its tasks)", 1,
                 "two concurrent sub-requests that do not finish in reverse order of their start: the wire callbacks of one write into the other's context, a sub-request's "
                 "timing contains its sibling's end or is dropped")
        rs, _ = _composite()
        stream_task_rule(chk, "O18.6", R, rs, run_)

    def o18_7():
        # ---- O18.7 no stream outlives the composite that failed --------------------------------------------------------------------------------------
        chk.rule("O18.7", "when a stream task of a composite fails with an exception that still yields a sample, every unfinished sibling task is cancelled before the failure "
                 "leaves run_stream: no HTTP request is issued on behalf of a logical request after its end was recorded", 4,
                 "one of several concurrent streams fails (on-error=continue): the composite's sample is taken, the sibling streams keep sending their remaining sub-requests "
                 "- the recorded end is not the latest end of the requests issued on the composite's behalf")
        rs, cm = _composite()
        stream_failure_rule(chk, "O18.7", repo, rs, run_, cm)

    for rid, section in (("O18.1", o18_1), ("O18.5", o18_5), ("O18.2", o18_2), ("O18.3", o18_3), ("O18.6", o18_6), ("O18.7", o18_7)):
        try:
            section()
        except AnchorMissing as e:
            chk.unknown(rid, f"anchor missing: {e}")


from sa.selftest import V  # noqa: E402

_MIN = "            meta[\"request_start\"] = new_request_start if current is None else min(current, new_request_start)"
_MAX = "            meta[\"request_end\"] = new_request_end if current is None else max(current, new_request_end)"
_F38_IF = "            if start is not None and end is not None:\n"
_F38_KEYS = ["\"operation\": params.get(\"name\"),", "\"operation-type\": params.get(\"operation-type\"),", "\"absolute_time\": absolute_time,", "\"request_start\": start,", "\"request_end\": end,",
             "\"service_time\": end - start,"]
_F38_DICT = "                result[\"dependent_timing\"] = {\n" + "".join(f"                    {k}\n" for k in _F38_KEYS) + "                }\n"
_F38_DICT_FLAT = "            result[\"dependent_timing\"] = {\n" + "".join(f"                {k}\n" for k in _F38_KEYS) + "            }\n"
_F39_EXCEPT = "        except BaseException:\n"
_F39_COMMENT = ("            # aiohttp only signals `on_request_exception` until the response *headers* have arrived. A request that fails\n"
                "            # later (timeout / disconnect while the body is read) ends now and not when its headers were received.\n")
_F39_TAIL = "            try:\n                RequestContextHolder.on_request_end()\n            except LookupError:\n                pass\n            raise\n"
_F39_BODY = _F39_COMMENT + _F39_TAIL
_F39_METHOD = ("    async def perform_request(self, *args, **kwargs):\n        try:\n            return await super().perform_request(*args, **kwargs)\n" + _F39_EXCEPT + _F39_BODY + "\n")
VARIANTS = [
    V("F7: first-start-wins", "break", _C, "        if new_request_start is not None:\n            current = meta.get(\"request_start\")\n" + _MIN, "        if \"request_start\" not in meta:\n            meta[\"request_start\"] = new_request_start", "O18.1"),
    V("F7: last-end-wins", "break", _C, "        if new_request_end is not None:\n            current = meta.get(\"request_end\")\n" + _MAX, "        meta[\"request_end\"] = new_request_end", "O18.1"),
    V("seed C04-m3: start merged with max", "break", _C, _MIN, _MIN.replace("min(", "max("), "O18.1"),
    V("None not ignored for the end", "break", _C, "        if new_request_end is not None:\n            current", "        if True:\n            current", "O18.1"),
    V("end not propagated", "break", _C, "            self.ctx_holder.update_request_end(self.request_end)\n", "", "O18.1"),
    V("module-level dict instead of ContextVar value", "break", _C, "        ctx = {}\n        token = cls.request_context.set(ctx)", "        ctx = _SHARED\n        token = cls.request_context.set(ctx)", "O18.2"),
    V("propagate even without parent", "break", _C, "        if self.token.old_value != contextvars.Token.MISSING:", "        if True:", "O18.2"),
    V("propagate before restore", "break", _C, "        self.ctx_holder.restore_context(self.token)\n        # don't attempt", "        # don't attempt", "O18.2"),
    V("__exit__ swallows", "break", _C, "        self.token = None\n        return False", "        self.token = None\n        return True", "O18.2"),
    V("runner outside the context", "break", _D, "                with self.es[\"default\"].new_request_context() as request_context:\n                    total_ops, total_ops_unit, request_meta_data = await execute_single(runner, self.es, params, self.on_error)\n                    request_start",
      "                total_ops, total_ops_unit, request_meta_data = await execute_single(runner, self.es, params, self.on_error)\n                with self.es[\"default\"].new_request_context() as request_context:\n                    request_start", "O18.3"),
    V("wrapper reads times before the delegate", "break", _R, "        with es[\"default\"].new_request_context() as request_context:\n            return_value = await self.delegate(es, params)\n", "        with es[\"default\"].new_request_context() as request_context:\n            start = request_context.request_start\n            return_value = await self.delegate(es, params)\n", "O18.3"),
    V("composite dispatch unwrapped", "break", _R, "                    runner = RequestTiming(runner_for(op_type))", "                    runner = runner_for(op_type)", "O18.3"),
    # F38 (48adc37): the wrapper computes over start / end only when both are present
    V("F38: textual revert (dependent_timing unguarded)", "break", _R, _F38_IF + _F38_DICT, _F38_DICT_FLAT, "O18.3"),
    V("F38: guard on the start only", "break", _R, _F38_IF, "            if start is not None:\n", "O18.3"),
    V("F38: truthiness guard (0.0 is a time)", "break", _R, _F38_IF, "            if start and end:\n", "O18.3"),
    V("F38: either present", "break", _R, _F38_IF, "            if start is not None or end is not None:\n", "O18.3"),
    # F39 (09d2ce8): the node-level perform_request records the end of a failed wire request
    V("F39: textual revert (no perform_request override)", "break", _A, _F39_METHOD, "", "O18.5"),
    V("F39: handler only for the client-side timeout", "break", _A, _F39_EXCEPT, "        except asyncio.TimeoutError:\n", "O18.5"),
    V("F39: end kept only if the context has none yet", "break", _A, "                RequestContextHolder.on_request_end()\n",
      "                if RequestContextHolder.request_context.get().get(\"request_end\") is None:\n                    RequestContextHolder.on_request_end()\n", "O18.5"),
    V("F39: handler swallows the failure", "break", _A, "            except LookupError:\n                pass\n            raise\n", "            except LookupError:\n                pass\n", "O18.5"),
    [V("F39 reverted AND exception hook conditional (benign C18-x6 is only benign with F39)", "break", _A, _F39_METHOD, "", "O18.1"),
     V("", "break", _F, "        trace_config = aiohttp.TraceConfig()\n", "        async def on_request_exception(session, trace_config_ctx, params):\n"
       "            if RallyAsyncElasticsearch.request_context.get().get(\"request_end\") is None:\n                RallyAsyncElasticsearch.on_request_end()\n\n"
       "        trace_config = aiohttp.TraceConfig()\n"),
     V("", "break", _F, "        trace_config.on_request_exception.append(on_request_end)", "        trace_config.on_request_exception.append(on_request_exception)")],
    [V("exception hook dropped AND node handler conditional", "break", _A, "                RequestContextHolder.on_request_end()\n",
       "                if RequestContextHolder.request_context.get().get(\"request_end\") is None:\n                    RequestContextHolder.on_request_end()\n", "O18.1"),
     V("", "break", _F, "        trace_config.on_request_exception.append(on_request_end)\n", "")],
    V("start callback hung on the exception signal", "break", _F, "        trace_config.on_request_exception.append(on_request_end)", "        trace_config.on_request_exception.append(on_request_start)", "O18.1"),
    # preserving
    V("F38: negated disjunction", "keep", _R, _F38_IF, "            if not (start is None or end is None):\n"),
    V("F38: guard clause", "keep", _R, _F38_IF + _F38_DICT, "            if start is None or end is None:\n                return result\n" + _F38_DICT_FLAT),
    V("F38: no temporaries in the guard, operands swapped", "keep", _R, _F38_IF, "            if request_context.request_end is not None and request_context.request_start is not None:\n"),
    V("F38: membership test", "keep", _R, _F38_IF, "            if None not in (start, end):\n"),
    V("F38: nested ifs", "keep", _R, _F38_IF, "            if end is not None:\n              if start is not None:\n"),
    V("F39: except Exception (every failure that yields a sample is an Exception)", "keep", _A, _F39_EXCEPT, "        except Exception:\n"),
    V("F39: bare except, bound re-raise through the subclass holder", "keep", _A, _F39_EXCEPT + _F39_BODY,
      "        except BaseException as e:\n            try:\n                RallyAsyncElasticsearch.on_request_end()\n            except LookupError:\n                pass\n            raise e\n"),
    [V("F39: contextlib.suppress instead of try/except/pass", "keep", _A, "            try:\n                RequestContextHolder.on_request_end()\n            except LookupError:\n                pass\n",
       "            with contextlib.suppress(LookupError):\n                RequestContextHolder.on_request_end()\n"),
     V("", "keep", _A, "import asyncio\nimport json\n", "import asyncio\nimport contextlib\nimport json\n")],
    [V("F39: clock read handed to the merge directly, result through a temporary", "keep", _A, "            return await super().perform_request(*args, **kwargs)\n" + _F39_EXCEPT + _F39_BODY,
       "            response = await AiohttpHttpNode.perform_request(self, *args, **kwargs)\n            return response\n" + _F39_EXCEPT
       + "            try:\n                RequestContextHolder.update_request_end(time.perf_counter())\n            except LookupError:\n                pass\n            raise\n"),
     V("", "keep", _A, "import logging\nimport warnings\n", "import logging\nimport time\nimport warnings\n")],
    V("benign C18-x6 shape: exception hook absent (node-level handler records the end)", "keep", _F, "        trace_config.on_request_exception.append(on_request_end)\n", ""),
    V("min via guarded assignment", "keep", _C, _MIN, "            if current is None or new_request_start < current:\n                meta[\"request_start\"] = new_request_start"),
    V("max via conditional expression", "keep", _C, _MAX, "            meta[\"request_end\"] = new_request_end if current is None else (new_request_end if new_request_end > current else current)"),
    V("is not MISSING", "keep", _C, "        if self.token.old_value != contextvars.Token.MISSING:", "        if self.token.old_value is not contextvars.Token.MISSING:"),
]

# ---- hardening round 2: realistic refactorings (keep) and the same defects placed INSIDE the refactored shapes (break) ----------------------------------------------------
_UPD = ("    @classmethod\n    def update_request_start(cls, new_request_start):\n        meta = cls.request_context.get()\n"
        "        # multiple requests may be sent on the wire for one logical request (e.g. scrolls) and sub-requests may run\n"
        "        # concurrently and finish in any order: always keep the earliest start.\n"
        "        if new_request_start is not None:\n            current = meta.get(\"request_start\")\n" + _MIN + "\n\n"
        "    @classmethod\n    def update_request_end(cls, new_request_end):\n        meta = cls.request_context.get()\n"
        "        # always keep the most recent end (see above).\n"
        "        if new_request_end is not None:\n            current = meta.get(\"request_end\")\n" + _MAX + "\n")
_H_BODY = ("        meta = cls.request_context.get()\n        if new_value is None:\n            return\n        current = meta.get(key)\n"
           "        meta[key] = new_value if current is None else outermost(current, new_value)\n")


def _helper_shape(body=_H_BODY, start_args="\"request_start\", new_request_start, min", end_args="\"request_end\", new_request_end, max", sig="cls, key, new_value, outermost",
                  deco="@classmethod"):
    """benign C18-b1: the two merges folded into one helper that the public methods delegate to"""
    return (f"    {deco}\n    def _keep_outermost({sig}):\n{body}\n    @classmethod\n    def update_request_start(cls, new_request_start):\n        cls._keep_outermost({start_args})\n\n"
            f"    @classmethod\n    def update_request_end(cls, new_request_end):\n        cls._keep_outermost({end_args})\n")


_MODFN = ("def _keep_outermost(values, key, new_value, outermost):\n    if new_value is None:\n        return\n    current = values.get(key)\n"
          "    values[key] = new_value if current is None else {merged}\n\n\n")
_MODFN_CALLS = ("    @classmethod\n    def update_request_start(cls, new_request_start):\n        _keep_outermost(cls.request_context.get(), \"request_start\", new_request_start, min)\n\n"
                "    @classmethod\n    def update_request_end(cls, new_request_end):\n        _keep_outermost(cls.request_context.get(), \"request_end\", new_request_end, max)\n")
_TABLE_BODY = ("        meta = cls.request_context.get()\n        if new_value is not None:\n            current = meta.get(key)\n            if current is None:\n                meta[key] = new_value\n"
               "            else:\n                meta[key] = {\"request_start\": min, \"request_end\": max}[key](current, new_value)\n")
_STATIC_BODY = "        if new_value is None:\n            return\n        current = values.get(key)\n        values[key] = new_value if current is None else pick(current, new_value)\n"
_EXIT = ("    def __exit__(self, exc_type, exc_val, exc_tb):\n        self.ctx_holder.restore_context(self.token)\n"
         "        # don't attempt to restore these values on the top-level context as they don't exist\n        if self.token.old_value != contextvars.Token.MISSING:\n"
         "            # propagate earliest request start and most recent request end to parent\n            self.ctx_holder.update_request_start(self.request_start)\n"
         "            self.ctx_holder.update_request_end(self.request_end)\n        self.token = None\n        return False\n")
_PROP_HELPER = ("    def _propagate_to_parent(self):\n        if self.token.old_value != contextvars.Token.MISSING:\n            self.ctx_holder.update_request_start(self.request_start)\n"
                "            self.ctx_holder.update_request_end(self.request_end)\n\n    def __exit__(self, exc_type, exc_val, exc_tb):\n")
_B3 = [("self.ctx_holder", "self.holder", 5), ("self.ctx", "self.values", 4), ("self.token", "self.parent_token", 5), ("meta", "values", 6)]


def _b3_shape(kind, name, rule=None, extra=()):
    """benign C18-b3: consistent renames of the manager's attributes and of the holder's locals (+ further edits on the renamed text)"""
    vs = [V(name if i == 0 else "", kind, _C, o, n, rule if i == 0 else None, count=c) for i, (o, n, c) in enumerate(_B3)]
    return vs + [V("", kind, f_, o, n) for f_, o, n in extra]


_LOOP = "            async for expected_scheduled_time, sample_type, percent_completed, runner, params in schedule:\n"
_WITH = "                with self.es[\"default\"].new_request_context() as request_context:\n"
_ADD = "                self.sampler.add(\n                    self.task,\n                    self.client_id,\n"


def _b4_shape(kind, name, rule=None, extra=()):
    """benign C18-b4: loop invariants (the context factory, the sampler's add) bound to locals before the request loop"""
    return [V(name, kind, _D, _LOOP, "            open_context = self.es[\"default\"].new_request_context\n            record = self.sampler.add\n" + _LOOP, rule),
            V("", kind, _D, _WITH, "                with open_context() as rc:\n"),
            V("", kind, _D, "request_start = request_context.request_start\n                    request_end = request_context.request_end", "request_start, request_end = rc.request_start, rc.request_end"),
            V("", kind, _D, _ADD, "                record(\n                    self.task,\n                    self.client_id,\n")] + [V("", kind, f_, o, n) for f_, o, n in extra]


_CB = ("        async def on_request_start(session, trace_config_ctx, params):\n            RallyAsyncElasticsearch.on_request_start()\n\n"
       "        async def on_request_end(session, trace_config_ctx, params):\n            RallyAsyncElasticsearch.on_request_end()\n\n")
_CREATE = "    def create_async(self, api_key=None, client_id=None):"
_REG_HELPER = ("    @staticmethod\n    def _register(config, start, stop):\n        config.on_request_start.append(start)\n        config.{chunk}.append(stop)\n"
               "        config.on_request_end.append(stop)\n        config.on_request_exception.append(stop)\n\n" + _CREATE)


def _reg_helper_shape(kind, name, rule=None, chunk="on_response_chunk_received"):
    return [V(name, kind, _F, "        trace_config.on_request_start.append(on_request_start)\n", "        self._register(trace_config, on_request_start, on_request_end)\n", rule),
            V("", kind, _F, "        trace_config.on_response_chunk_received.append(on_request_end)\n", ""), V("", kind, _F, "        trace_config.on_request_end.append(on_request_end)\n", ""),
            V("", kind, _F, "        trace_config.on_request_exception.append(on_request_end)\n", ""), V("", kind, _F, _CREATE, _REG_HELPER.replace("{chunk}", chunk))]


_PR = "    async def perform_request(self, *args, **kwargs):\n"
_RW = "        with es[\"default\"].new_request_context() as request_context:\n            return_value = await self.delegate(es, params)\n"
VARIANTS += [
    # the merge folded into a helper (benign C18-b1) - and the defects inside / at the call sites of the helper
    V("b1 shape: merges delegate to one helper (key, value, operator handed on as a value)", "keep", _C, _UPD, _helper_shape()),
    V("b1 shape: last-wins inside the extracted helper", "break", _C, _UPD, _helper_shape(_H_BODY.replace("new_value if current is None else outermost(current, new_value)", "new_value")), "O18.1"),
    V("b1 shape: the start delegates with max", "break", _C, _UPD, _helper_shape(start_args="\"request_start\", new_request_start, max"), "O18.1"),
    V("b1 shape: helper without the None guard", "break", _C, _UPD, _helper_shape(_H_BODY.replace("        if new_value is None:\n            return\n", "")), "O18.1"),
    V("b1 shape: the end is merged under the start's key", "break", _C, _UPD, _helper_shape(end_args="\"request_start\", new_request_end, max"), "O18.1"),
    V("operator looked up in a table by key", "keep", _C, _UPD, _helper_shape(_TABLE_BODY, "\"request_start\", new_request_start", "\"request_end\", new_request_end", "cls, key, new_value")),
    V("operator table with min / max swapped", "break", _C, _UPD, _helper_shape(_TABLE_BODY.replace("\"request_start\": min, \"request_end\": max", "\"request_start\": max, \"request_end\": min"),
                                                                             "\"request_start\", new_request_start", "\"request_end\", new_request_end", "cls, key, new_value"), "O18.1"),
    V("static helper that is handed the current context's dict", "keep", _C, _UPD, _helper_shape(_STATIC_BODY, "cls.request_context.get(), \"request_start\", new_request_start, min",
                                                                                                 "cls.request_context.get(), \"request_end\", new_request_end, max", "values, key, new_value, pick", "@staticmethod")),
    [V("static helper handed a module-level dict instead of the current context's", "break", _C, _UPD, _helper_shape(_STATIC_BODY, "_requests_by_client, \"request_start\", new_request_start, min",
                                                                                                                      "_requests_by_client, \"request_end\", new_request_end, max", "values, key, new_value, pick", "@staticmethod"), "O18.2"),
     V("", "break", _C, "class RequestContextManager:", "_requests_by_client = {}\n\n\nclass RequestContextManager:")],
    [V("merge in a module-level function that is handed the current context's dict", "keep", _C, _UPD, _MODFN_CALLS),
     V("", "keep", _C, "class RequestContextManager:", _MODFN.format(merged="outermost(current, new_value)") + "class RequestContextManager:")],
    [V("module-level merge function keeps the first value", "break", _C, _UPD, _MODFN_CALLS, "O18.1"),
     V("", "break", _C, "class RequestContextManager:", _MODFN.format(merged="current") + "class RequestContextManager:")],
    V("first-wins through dict.setdefault", "break", _C, "            current = meta.get(\"request_start\")\n" + _MIN, "            meta.setdefault(\"request_start\", new_request_start)", "O18.1"),
    V("min over the present candidates", "keep", _C, "        if new_request_start is not None:\n            current = meta.get(\"request_start\")\n" + _MIN,
      "        candidates = [t for t in (meta.get(\"request_start\"), new_request_start) if t is not None]\n        if candidates:\n            meta[\"request_start\"] = min(candidates)"),
    # consistent renames (benign C18-b3)
    _b3_shape("keep", "b3 shape: manager attributes and holder locals renamed consistently"),
    _b3_shape("break", "b3 shape: propagation only when the block succeeded", "O18.2",
              [(_C, "        if self.parent_token.old_value != contextvars.Token.MISSING:", "        if exc_type is None and self.parent_token.old_value != contextvars.Token.MISSING:")]),
    _b3_shape("break", "b3 shape: the dict / token pair unpacked the wrong way round", "O18.2",
              [(_C, "        self.values, self.parent_token = self.holder.init_request_context()", "        self.parent_token, self.values = self.holder.init_request_context()")]),
    # __exit__ restructured
    V("propagation extracted into a helper of the manager", "keep", _C, _EXIT, _PROP_HELPER + "        self.ctx_holder.restore_context(self.token)\n        self._propagate_to_parent()\n        self.token = None\n        return False\n"),
    V("propagation helper called before the restore", "break", _C, _EXIT, _PROP_HELPER + "        self._propagate_to_parent()\n        self.ctx_holder.restore_context(self.token)\n        self.token = None\n        return False\n", "O18.2"),
    V("propagation helper called only when the block succeeded", "break", _C, _EXIT,
      _PROP_HELPER + "        self.ctx_holder.restore_context(self.token)\n        if exc_type is None:\n            self._propagate_to_parent()\n        self.token = None\n        return False\n", "O18.2"),
    V("__exit__ with a flag, a guard clause and a parallel assignment", "keep", _C, _EXIT,
      "    def __exit__(self, exc_type, exc_val, exc_tb):\n        token = self.token\n        self.ctx_holder.restore_context(token)\n        self.token = None\n"
      "        nested = token.old_value is not contextvars.Token.MISSING\n        if not nested:\n            return False\n        start, end = self.request_start, self.request_end\n"
      "        self.ctx_holder.update_request_start(start)\n        self.ctx_holder.update_request_end(end)\n        return None\n"),
    V("restore method inlined into __exit__", "keep", _C, "        self.ctx_holder.restore_context(self.token)\n        # don't attempt", "        self.ctx_holder.request_context.reset(self.token)\n        # don't attempt"),
    V("propagation skipped for a missing own value (the merge ignores None anyway)", "keep", _C, "            self.ctx_holder.update_request_start(self.request_start)\n",
      "            if self.request_start is not None:\n                self.ctx_holder.update_request_start(self.request_start)\n"),
    V("start propagated from the end", "break", _C, "update_request_start(self.request_start)", "update_request_start(self.request_end)", "O18.1"),
    V("property subscripts the dict (KeyError for a context without a wire request)", "break", _C, "        return self.ctx.get(\"request_start\")", "        return self.ctx[\"request_start\"]", "O18.1"),
    V("wire callback stamps the wall clock", "break", _C, "cls.update_request_start(time.perf_counter())", "cls.update_request_start(time.time())", "O18.1"),
    V("wire callback through a temporary", "keep", _C, "cls.update_request_end(time.perf_counter())", "now = time.perf_counter()\n        cls.update_request_end(now)"),
    V("init returns a copy of the installed dict", "break", _C, "        return ctx, token", "        return dict(ctx), token", "O18.2"),
    V("module-level list that is only read", "keep", _C, "class RequestContextManager:", "_timing_keys = [\"request_start\", \"request_end\"]\n\n\nclass RequestContextManager:"),
    [V("module-level dict that a holder method writes to", "break", _C, "class RequestContextManager:", "_last = {}\n\n\nclass RequestContextManager:", "O18.2"),
     V("", "break", _C, "        ctx[\"raw_response\"] = True", "        ctx[\"raw_response\"] = True\n        _last[\"raw\"] = ctx")],
    [V("module-level CONSTANT dict installed as every context's value (N9 copies its literal into the function)", "break", _C, "class RequestContextManager:", "_SHARED = {}\n\n\nclass RequestContextManager:", "O18.2"),
     V("", "break", _C, "        ctx = {}\n", "        ctx = _SHARED\n")],
    [V("fresh dict built by a helper of the holder", "keep", _C, "        ctx = {}\n", "        ctx = cls._empty_context()\n"),
     V("", "keep", _C, "    @classmethod\n    def init_request_context(cls):", "    @staticmethod\n    def _empty_context():\n        return {}\n\n    @classmethod\n    def init_request_context(cls):")],
    V("nested context starts from a copy of the enclosing one", "break", _C, "        ctx = {}\n", "        ctx = dict(cls.request_context.get({}))\n", "O18.2"),
    # executor (benign C18-b4) and wrapper
    _b4_shape("keep", "b4 shape: context factory and sampler.add hoisted into locals, start/end unpacked in parallel"),
    _b4_shape("break", "b4 shape: the hoisted sampler call records the processing start", "O18.3",
              [(_D, "                    absolute_processing_start,\n                    request_start,\n", "                    absolute_processing_start,\n                    processing_start,\n")]),
    V("wrapper: context manager built one line earlier, delegate through an alias", "keep", _R, _RW,
      "        wrapped = self.delegate\n        timing_context = es[\"default\"].new_request_context()\n        with timing_context as request_context:\n            return_value = await wrapped(es, params)\n"),
    V("wrapper: delegate awaited before the context is entered", "break", _R, _RW, "        return_value = await self.delegate(es, params)\n        with es[\"default\"].new_request_context() as request_context:\n", "O18.3"),
    V("composite: dispatched runner reaches the wrapper through a local", "keep", _R, "                    runner = RequestTiming(runner_for(op_type))",
      "                    plain_runner = runner_for(op_type)\n                    runner = RequestTiming(plain_runner)"),
    V("composite: the local is also used unwrapped", "break", _R, "                    runner = RequestTiming(runner_for(op_type))",
      "                    plain_runner = runner_for(op_type)\n                    runner = RequestTiming(plain_runner) if item.get(\"timed\", True) else plain_runner", "O18.3"),
    # trace hooks and node-level handler
    _reg_helper_shape("keep", "trace hooks registered by a helper that is handed the configuration and the callbacks"),
    _reg_helper_shape("break", "registration helper hangs the stop callback on the request-side chunk signal", "O18.1", chunk="on_request_chunk_sent"),
    [V("trace callbacks as static methods of the factory", "keep", _F, _CB, ""),
     V("", "keep", _F, _CREATE, "    @staticmethod\n    async def _start_clock(session, trace_config_ctx, params):\n        from esrally.client.asynchronous import RallyAsyncElasticsearch\n\n"
       "        RallyAsyncElasticsearch.on_request_start()\n\n    @staticmethod\n    async def _stop_clock(session, trace_config_ctx, params):\n"
       "        from esrally.client.asynchronous import RallyAsyncElasticsearch\n\n        RallyAsyncElasticsearch.on_request_end()\n\n" + _CREATE),
     V("", "keep", _F, ".append(on_request_start)", ".append(self._start_clock)"), V("", "keep", _F, ".append(on_request_end)", ".append(self._stop_clock)", count=3)],
    [V("F39: end recorded by a helper of the node class", "keep", _A, "            try:\n                RequestContextHolder.on_request_end()\n            except LookupError:\n                pass\n            raise\n",
       "            self._request_ended()\n            raise\n"),
     V("", "keep", _A, _PR, "    def _request_ended(self):\n        try:\n            RequestContextHolder.on_request_end()\n        except LookupError:\n            pass\n\n" + _PR)],
    [V("F39: the node helper records the end only if none is known yet", "break", _A, "            try:\n                RequestContextHolder.on_request_end()\n            except LookupError:\n                pass\n            raise\n",
       "            self._request_ended()\n            raise\n", "O18.5"),
     V("", "break", _A, _PR, "    def _request_ended(self):\n        if RequestContextHolder.request_context.get().get(\"request_end\") is None:\n            RequestContextHolder.on_request_end()\n\n" + _PR)],
]

# ---- hardening round 3: the executor's request step and the wrapper seen TOGETHER WITH the helpers they run inline (benign C18-b6 and further refactorings of the same functions),
#      and the same defects placed inside / at the call sites of those helpers -----------------------------------------------------------------------------------------------
_W4 = (_WITH + "                    total_ops, total_ops_unit, request_meta_data = await execute_single(runner, self.es, params, self.on_error)\n"
       "                    request_start = request_context.request_start\n                    request_end = request_context.request_end\n")
_CALLDEF = "    async def __call__(self, *args, **kwargs):\n        any_task_completes_parent"
_B6_CALL = "                total_ops, total_ops_unit, request_meta_data, request_start, request_end = await self._execute_request(runner, params)\n"
_B6_RUN = "            total_ops, total_ops_unit, request_meta_data = await execute_single(runner, self.es, params, self.on_error)\n"
_B6_OPEN = "        with self.es[\"default\"].new_request_context() as request_context:\n"
_B6_START, _B6_END = "            request_start = request_context.request_start\n", "            request_end = request_context.request_end\n"
_B6_RET = "        return total_ops, total_ops_unit, request_meta_data, request_start, request_end\n"
_B6_BODY = _B6_OPEN + _B6_RUN + _B6_START + _B6_END + _B6_RET
_SCHED = "        schedule = self.schedule_handle()\n"
_OUTCOME = ("                outcome = await self._execute_request(runner, params)\n"
            "                total_ops, total_ops_unit, request_meta_data = outcome.total_ops, outcome.total_ops_unit, outcome.request_meta_data\n"
            "                request_start, request_end = outcome.request_start, outcome.request_end\n")
_OUTCOME_CLS = ("class RequestOutcome(collections.namedtuple(\"RequestOutcome\", \"total_ops total_ops_unit request_meta_data request_start request_end\")):\n    pass\n\n\n"
                "class AsyncExecutor:")
_ADD_FULL = (_ADD + "                    sample_type,\n                    request_meta_data,\n                    absolute_processing_start,\n                    request_start,\n                    latency,\n"
             "                    service_time,\n                    processing_time,\n                    throughput,\n                    total_ops,\n                    total_ops_unit,\n"
             "                    time_period,\n                    progress,\n                    request_meta_data.pop(\"dependent_timing\", None),\n                )\n")
_REC_CALL = ("                self._record(sample_type, request_meta_data, absolute_processing_start, {start}, latency, service_time, processing_time, throughput, total_ops, "
             "total_ops_unit, time_period, progress)\n")
_REC_DEF = ("    def _record(self, sample_type, meta_data, absolute_time, started, latency, service_time, processing_time, throughput, ops, ops_unit, time_period, progress):\n"
            "        self.sampler.add(self.task, self.client_id, sample_type, meta_data, absolute_time, started, latency, service_time, processing_time, throughput, ops, ops_unit, time_period,\n"
            "                         progress, meta_data.pop(\"dependent_timing\", None))\n\n")


def _step_helper(body, sig="self, runner, params", name="_execute_request", kw="async def"):
    return f"    {kw} {name}({sig}):\n{body}\n" + _CALLDEF


def _b6_shape(kind, name, rule=None, body=_B6_BODY, call=_B6_CALL, extra=()):
    """benign C18-b6: the context / runner / reads step of the request loop extracted into a coroutine method that the loop awaits"""
    return [V(name, kind, _D, _W4, call, rule), V("", kind, _D, _CALLDEF, _step_helper(body))] + [V("", kind, f_, o, n) for f_, o, n in extra]


_RT_IF = _F38_IF
_RT_HEAD = "    async def __aenter__(self):\n        await self.delegate.__aenter__()\n        return self\n\n    async def __call__(self, es, params):\n        absolute_time = time.time()\n"
_RT_REC = "{\n" + "".join(f"            {k}\n" for k in _F38_KEYS) + "        }\n"
_RT_H1 = "    @staticmethod\n    def _dependent_timing(params, absolute_time, start, end):\n        return " + _RT_REC + "\n"
_RT_H2 = "    @staticmethod\n    def _dependent_timing(params, absolute_time, start, end):\n        if start is None or end is None:\n            return None\n        return " + _RT_REC + "\n"
_RT_H3 = ("    def _dependent_timing(self, params, absolute_time, ctx):\n        started, ended = ctx.request_start, ctx.request_end\n        if started is None or ended is None:\n            return None\n"
          "        return {\n            \"operation\": params.get(\"name\"),\n            \"operation-type\": params.get(\"operation-type\"),\n            \"absolute_time\": absolute_time,\n"
          "            \"request_start\": started,\n            \"request_end\": ended,\n            \"service_time\": ended - started,\n        }\n\n")
_RT_USE1 = "                result[\"dependent_timing\"] = self._dependent_timing(params, absolute_time, {a}, {b})\n"
_RT_USE2 = "            timing = self._dependent_timing(params, absolute_time, start, end)\n            if timing is not None:\n                result[\"dependent_timing\"] = timing\n"
_RT_INVOKE = "    async def _invoke(self, es, params):\n        return_value = await self.delegate(es, params)\n        return return_value\n\n"
_RT_OPEN = "        with es[\"default\"].new_request_context() as request_context:\n"
_ENTER = "        self.ctx, self.token = self.ctx_holder.init_request_context()\n"
_TIMING_HELPER = "    def _timing(self, key):\n        return self.ctx.get(key)\n\n    def __exit__(self, exc_type"
VARIANTS += [
    # executor: the request step in a helper (benign C18-b6)
    _b6_shape("keep", "b6 shape: context, runner and reads extracted into a coroutine helper that returns (ops, unit, meta, start, end)"),
    _b6_shape("break", "b6 shape: the helper awaits the runner before it enters the context", "O18.3", _B6_RUN.replace("            total", "        total") + _B6_OPEN + _B6_START + _B6_END + _B6_RET),
    _b6_shape("break", "b6 shape: the helper returns end and start the wrong way round", "O18.3", _B6_BODY.replace("request_meta_data, request_start, request_end\n", "request_meta_data, request_end, request_start\n")),
    _b6_shape("break", "b6 shape: the helper reads the start before the runner ran", "O18.3", _B6_OPEN + _B6_START + _B6_RUN + _B6_END + _B6_RET),
    _b6_shape("break", "b6 shape: the helper enters a context object that is kept in instance state", "O18.3", _B6_BODY.replace("with self.es[\"default\"].new_request_context() as", "with self._context as"),
              extra=[(_D, _SCHED, _SCHED + "        self._context = self.es[\"default\"].new_request_context()\n")]),
    _b6_shape("break", "b6 shape: the helper is awaited twice per request (two contexts for one sample)", "O18.3", call="                for _ in range(2):\n    " + _B6_CALL),
    _b6_shape("keep", "b6 shape through a hoisted bound method, the result kept in a tuple and indexed",
              body=_B6_BODY.replace(_B6_RET, "        outcome = (total_ops, total_ops_unit, request_meta_data, request_start, request_end)\n        self.logger.debug(\"request done\")\n        return outcome\n"),
              call="                outcome = await run_request(runner, params)\n                total_ops, total_ops_unit, request_meta_data = outcome[0], outcome[1], outcome[2]\n"
                   "                request_start, request_end = outcome[3], outcome[4]\n", extra=[(_D, _SCHED, _SCHED + "        run_request = self._execute_request\n")]),
    _b6_shape("keep", "b6 shape: the helper returns a named tuple, the loop reads its fields", body=_B6_BODY.replace(_B6_RET, "        return RequestOutcome(total_ops, total_ops_unit, request_meta_data, request_start, request_end)\n"),
              call=_OUTCOME, extra=[(_D, "class AsyncExecutor:", _OUTCOME_CLS)]),
    _b6_shape("break", "b6 shape: the named tuple is built with end and start swapped", "O18.3", body=_B6_BODY.replace(_B6_RET, "        return RequestOutcome(total_ops, total_ops_unit, request_meta_data, request_end, request_start)\n"),
              call=_OUTCOME, extra=[(_D, "class AsyncExecutor:", _OUTCOME_CLS)]),
    [V("request step in a module-level coroutine function", "keep", _D, _W4, "                total_ops, total_ops_unit, request_meta_data, request_start, request_end = await _execute_in_context(self.es, runner, params, self.on_error)\n"),
     V("", "keep", _D, "async def execute_single(runner, es, params, on_error):", "async def _execute_in_context(es, runner, params, on_error):\n    with es[\"default\"].new_request_context() as ctx:\n"
       "        ops, unit, meta = await execute_single(runner, es, params, on_error)\n        return ops, unit, meta, ctx.request_start, ctx.request_end\n\n\nasync def execute_single(runner, es, params, on_error):")],
    [V("context opened through a helper that returns the new context manager", "keep", _D, _WITH, "                with self._request_context() as request_context:\n"),
     V("", "keep", _D, _CALLDEF, _step_helper("        return self.es[\"default\"].new_request_context()\n", "self", "_request_context", "def"))],
    [V("start / end read by a helper that is handed the context object", "keep", _D, "                    request_start = request_context.request_start\n                    request_end = request_context.request_end\n",
       "                    request_start, request_end = self._timings(request_context)\n"),
     V("", "keep", _D, _CALLDEF, _step_helper("        return ctx.request_start, ctx.request_end\n", "self, ctx", "_timings", "def"))],
    [V("sampler call extracted into a helper (the start handed on as an argument)", "keep", _D, _ADD_FULL, _REC_CALL.format(start="request_start")), V("", "keep", _D, _CALLDEF, _REC_DEF + _CALLDEF)],
    [V("sampler helper is handed the processing start", "break", _D, _ADD_FULL, _REC_CALL.format(start="processing_start"), "O18.3"), V("", "break", _D, _CALLDEF, _REC_DEF + _CALLDEF)],
    [V("start read from a context that was opened before the loop", "break", _D, "                    request_start = request_context.request_start\n", "                    request_start = outer.request_start\n", "O18.3"),
     V("", "break", _D, "        try:\n            async for expected_scheduled_time", "        try:\n          with self.es[\"default\"].new_request_context() as outer:\n            pass\n          if True:\n            async for expected_scheduled_time")],
    V("start / end read after the context was left (the properties read the same dict)", "keep", _D, "                    request_start = request_context.request_start\n                    request_end = request_context.request_end\n",
      "                request_start = request_context.request_start\n                request_end = request_context.request_end\n"),
    # wrapper: the timing record built / the delegate awaited by a helper of the wrapper
    [V("wrapper: timing record built by a static helper, guard at the call site", "keep", _R, _F38_IF + _F38_DICT, _RT_IF + _RT_USE1.format(a="start", b="end")), V("", "keep", _R, _RT_HEAD, _RT_H1 + _RT_HEAD)],
    [V("wrapper: record helper called without any guard", "break", _R, _F38_IF + _F38_DICT, _RT_USE1.format(a="start", b="end")[4:], "O18.3"), V("", "break", _R, _RT_HEAD, _RT_H1 + _RT_HEAD)],
    [V("wrapper: record helper called with start / end swapped", "break", _R, _F38_IF + _F38_DICT, _RT_IF + _RT_USE1.format(a="end", b="start"), "O18.3"), V("", "break", _R, _RT_HEAD, _RT_H1 + _RT_HEAD)],
    [V("wrapper: record helper with the guard clause inside", "keep", _R, _F38_IF + _F38_DICT, _RT_USE2), V("", "keep", _R, _RT_HEAD, _RT_H2 + _RT_HEAD)],
    [V("wrapper: record helper guards by truthiness (0.0 is a time)", "break", _R, _F38_IF + _F38_DICT, _RT_USE2, "O18.3"),
     V("", "break", _R, _RT_HEAD, _RT_H2.replace("if start is None or end is None:", "if not start or not end:") + _RT_HEAD)],
    [V("wrapper: record helper that is handed the context object", "keep", _R, "            start = request_context.request_start\n            end = request_context.request_end\n", ""),
     V("", "keep", _R, _F38_IF + _F38_DICT, "            timing = self._dependent_timing(params, absolute_time, request_context)\n            if timing:\n                result[\"dependent_timing\"] = timing\n"),
     V("", "keep", _R, _RT_HEAD, _RT_H3 + _RT_HEAD)],
    [V("wrapper: delegate awaited in a helper, called inside the context", "keep", _R, _RW, _RT_OPEN + "            return_value = await self._invoke(es, params)\n"), V("", "keep", _R, _RT_HEAD, _RT_INVOKE + _RT_HEAD)],
    [V("wrapper: delegate helper awaited before the context is entered", "break", _R, _RW, "        return_value = await self._invoke(es, params)\n" + _RT_OPEN, "O18.3"), V("", "break", _R, _RT_HEAD, _RT_INVOKE + _RT_HEAD)],
    V("wrapper: presence of both times held in a flag computed with all()", "keep", _R, _F38_IF, "            present = all(t is not None for t in (start, end))\n            if present:\n"),
    # context manager: keyword argument, pair kept in a local, properties through a helper
    V("restore called with the token by keyword", "keep", _C, "self.ctx_holder.restore_context(self.token)", "self.ctx_holder.restore_context(token=self.token)"),
    V("restore called by keyword with something that is not the token", "break", _C, "self.ctx_holder.restore_context(self.token)", "self.ctx_holder.restore_context(token=self.ctx)", "O18.2"),
    V("__enter__ keeps the (dict, token) pair in a local and takes it apart by position", "keep", _C, _ENTER, "        installed = self.ctx_holder.init_request_context()\n        self.ctx = installed[0]\n        self.token = installed[1]\n"),
    V("__enter__ takes the pair apart the wrong way round", "break", _C, _ENTER, "        installed = self.ctx_holder.init_request_context()\n        self.ctx = installed[1]\n        self.token = installed[0]\n", "O18.2"),
    [V("properties read the dict through a helper of the manager", "keep", _C, "        return self.ctx.get(\"request_start\")", "        return self._timing(\"request_start\")"),
     V("", "keep", _C, "        return self.ctx.get(\"request_end\")", "        return self._timing(\"request_end\")"), V("", "keep", _C, "    def __exit__(self, exc_type", _TIMING_HELPER)],
    [V("property helper is asked for the end's key by the start property", "break", _C, "        return self.ctx.get(\"request_start\")", "        return self._timing(\"request_end\")", "O18.1"),
     V("", "break", _C, "        return self.ctx.get(\"request_end\")", "        return self._timing(\"request_end\")"), V("", "break", _C, "    def __exit__(self, exc_type", _TIMING_HELPER)],
]

# ---- strengthening round 5 (seed C18-m14): a fresh request context per request means a fresh DICT OBJECT per request - decided by running the life cycle of the context
#      objects abstractly (consecutive_requests / nested_and_concurrent_requests), with the manager obtained the way the executor's loop obtains it ------------------------------
_INIT = "    def init_request_context(cls):\n        ctx = {}\n"
_INIT_RECYCLE = "    def init_request_context(cls, ctx=None):\n        if ctx is None:\n            ctx = {}\n        else:\n            ctx.clear()\n"
_ENTER_RECYCLE = "        self.ctx, self.token = self.ctx_holder.init_request_context(self.ctx)\n"
_MAINLOOP = "        self.logger.debug(\"Entering main loop for client id [%s].\", self.client_id)\n"
_HOISTED = "        request_context_manager = self.es[\"default\"].new_request_context()\n" + _MAINLOOP
_WITH_HOISTED = "                with request_context_manager as request_context:\n"
_EXIT_TAIL = "        self.token = None\n        return False"
VARIANTS += [
    [V("seed C18-m14: one context manager per client, re-entered for every request, whose dict is cleared and installed again", "break", _D, _MAINLOOP, _HOISTED, "O18.3"),
     V("", "break", _D, _WITH, _WITH_HOISTED), V("", "break", _C, _ENTER, _ENTER_RECYCLE), V("", "break", _C, _INIT, _INIT_RECYCLE)],
    [V("m14 shape: the re-entered manager hands its previous dict on as it is (`self.ctx or {}`), the init method installs what it is handed", "break", _D, _MAINLOOP, _HOISTED, "O18.3"),
     V("", "break", _D, _WITH, _WITH_HOISTED), V("", "break", _C, _ENTER, "        self.ctx, self.token = self.ctx_holder.init_request_context(self.ctx or {})\n"),
     V("", "break", _C, _INIT, "    def init_request_context(cls, ctx):\n")],
    [V("m14 shape: manager created right before the loop inside the try block, the dict kept (not even cleared) by a conditional expression", "break", _D,
       "        try:\n" + _LOOP, "        try:\n            per_client_context = self.es[\"default\"].new_request_context()\n" + _LOOP, "O18.3"),
     V("", "break", _D, _WITH, "                with per_client_context as request_context:\n"), V("", "break", _C, _ENTER, _ENTER_RECYCLE),
     V("", "break", _C, _INIT, "    def init_request_context(cls, ctx=None):\n        ctx = {} if ctx is None else ctx\n")],
    [V("m14 shape: the manager that is entered again installs a context only the first time", "break", _D, _MAINLOOP, _HOISTED, "O18.3"), V("", "break", _D, _WITH, _WITH_HOISTED),
     V("", "break", _C, _ENTER, "        if self.ctx is None:\n    " + _ENTER)],
    # each half of m14 alone preserves the behaviour, and so does the whole once __exit__ forgets the dict
    [V("m14, driver half only: the manager is created once per client and entered again - every entry still installs a new dict", "keep", _D, _MAINLOOP, _HOISTED),
     V("", "keep", _D, _WITH, _WITH_HOISTED)],
    [V("m14, context half only: a manager that is entered again would recycle its dict - but the executor creates a new manager per request", "keep", _C, _ENTER, _ENTER_RECYCLE),
     V("", "keep", _C, _INIT, _INIT_RECYCLE)],
    [V("m14 made harmless: __exit__ forgets the dict, so the re-entered manager starts from a new one", "keep", _D, _MAINLOOP, _HOISTED), V("", "keep", _D, _WITH, _WITH_HOISTED),
     V("", "keep", _C, _ENTER, _ENTER_RECYCLE), V("", "keep", _C, _INIT, _INIT_RECYCLE), V("", "keep", _C, _EXIT_TAIL, "        self.token = None\n        self.ctx = None\n        return False")],
    [V("new manager per request bound to a local inside the loop, the init method builds the dict with dict()", "keep", _D, _WITH,
       "                manager = self.es[\"default\"].new_request_context()\n                with manager as request_context:\n"),
     V("", "keep", _C, "        ctx = {}\n", "        ctx = dict()\n")],
]

# ---- round 6: C18-m16 (second context variable in a holder subclass), C18-m17 (failing stream no longer stops its siblings), C18-m18 (stream tasks share one Context) ----
_CLIENT_CLS = "class RallyAsyncElasticsearch(AsyncElasticsearch, RequestContextHolder):\n"
_CLIENT_INIT = "        distribution_version = kwargs.pop(\"distribution_version\", None)\n"
_RS_HEAD = "        streams = []\n        timings = []\n        try:\n"
_RS_TASK = "                    streams.append(asyncio.create_task(self.run_stream(es, item[\"stream\"], connection_limit)))\n"
_RS_EXCEPT = "        except BaseException:\n            # stop all already created tasks in case of exceptions\n"
_RS_CANCEL = "            for s in streams:\n                if not s.done():\n                    s.cancel()\n            raise\n"
VARIANTS += [
    V("seed C18-m16: the client class declares a request context variable of its own", "break", _A, _CLIENT_CLS,
      _CLIENT_CLS + "    request_context = contextvars.ContextVar(\"rally_async_request_context\")\n\n", "O18.2"),
    V("m16 invariant: every client instance rebinds the class's variable", "break", _A, _CLIENT_INIT,
      "        RallyAsyncElasticsearch.request_context = contextvars.ContextVar(\"per_client_request_context\")\n" + _CLIENT_INIT, "O18.2"),
    V("m16 invariant: a fresh variable annotated and built through a factory call", "break", _A, _CLIENT_CLS,
      _CLIENT_CLS + "    request_context: \"contextvars.ContextVar\" = contextvars.ContextVar(\"client\", default=None)\n\n", "O18.2"),
    V("the client class re-exports the holder's variable under the same name (the same object)", "keep", _A, _CLIENT_CLS,
      _CLIENT_CLS + "    request_context = RequestContextHolder.request_context\n\n"),
    V("the client class only annotates the inherited variable", "keep", _A, _CLIENT_CLS, _CLIENT_CLS + "    request_context: \"contextvars.ContextVar\"\n\n"),
    V("seed C18-m17: the clean-up handler of run_stream only handles the composite's own cancellation", "break", _R, _RS_EXCEPT,
      "        except asyncio.CancelledError:\n            # gather() takes care of the other streams when one of them fails\n", "O18.7"),
    V("m17 invariant: clean-up only for rally's own errors (a transport / API error of a stream passes it by)", "break", _R, _RS_EXCEPT, "        except exceptions.RallyError:\n", "O18.7"),
    V("m17 invariant: the handler re-raises without cancelling anything", "break", _R, _RS_CANCEL, "            raise\n", "O18.7"),
    V("m17 invariant: the handler returns what it has before it gets to the tasks", "break", _R, _RS_EXCEPT, _RS_EXCEPT + "            if timings:\n                raise\n", "O18.7"),
    V("clean-up for every Exception (the composite's own cancellation reaches the stream tasks through gather())", "keep", _R, _RS_EXCEPT, "        except Exception:\n"),
    V("clean-up as a comprehension over a copy of the task list", "keep", _R, _RS_CANCEL, "            [s.cancel() for s in list(streams) if not s.done()]\n            raise\n"),
    [V("clean-up extracted into a helper of the composite", "keep", _R, _RS_CANCEL, "            self._cancel_all(streams)\n            raise\n"),
     V("", "keep", _R, "    async def run_stream(self, es, stream, connection_limit):\n",
       "    @staticmethod\n    def _cancel_all(tasks):\n        for t in tasks:\n            if t.done():\n                continue\n            t.cancel()\n\n"
       "    async def run_stream(self, es, stream, connection_limit):\n")],
    [V("seed C18-m18: one copy_context() per run_stream call handed to every stream task", "break", _R, _RS_HEAD, "        streams = []\n        timings = []\n        stream_context = contextvars.copy_context()\n        try:\n", "O18.6"),
     V("", "break", _R, _RS_TASK, _RS_TASK.replace("connection_limit)))", "connection_limit), context=stream_context))"))],
    V("m18 invariant: the Context object of the level is kept in an attribute of the runner", "break", _R, _RS_TASK, _RS_TASK.replace("connection_limit)))", "connection_limit), context=self.stream_context))"), "O18.6"),
    [V("m18 invariant: the shared Context is taken by the event loop's create_task", "break", _R, _RS_HEAD, "        streams = []\n        timings = []\n        level = contextvars.copy_context()\n        try:\n", "O18.6"),
     V("", "break", _R, _RS_TASK, "                    streams.append(asyncio.get_running_loop().create_task(self.run_stream(es, item[\"stream\"], connection_limit), context=level))\n")],
    V("every stream task is handed a copy of the context taken for it", "keep", _R, _RS_TASK, _RS_TASK.replace("connection_limit)))", "connection_limit), context=contextvars.copy_context()))")),
    V("the copy for the task is taken one line earlier, in the same iteration", "keep", _R, _RS_TASK,
      "                    own = contextvars.copy_context()\n" + _RS_TASK.replace("connection_limit)))", "connection_limit), context=own))")),
    V("stream coroutine through a local, task made with ensure_future", "keep", _R, _RS_TASK,
      "                    nested = self.run_stream(es, item[\"stream\"], connection_limit)\n                    streams.append(asyncio.ensure_future(nested))\n"),
]

# ---- F60 (a869558): the trailing drain of run_stream sits inside the try block whose handler cancels the stream tasks ----
_F60_DRAIN = ("            # complete any outstanding streams\n            if streams:\n                streams_timings = await asyncio.gather(*streams)\n"
              "                for stream_timings in streams_timings:\n                    timings += stream_timings\n")
_F60_DRAIN_OUT = "\n".join(l[4:] for l in _F60_DRAIN.split("\n"))
_F60_END = "            raise\n        return timings\n"
VARIANTS += [
    [V("F60 reverted: the trailing drain moved back after the clean-up handler", "break", _R, _F60_DRAIN, "", "O18.7"),
     V("", "break", _R, _F60_END, "            raise\n" + _F60_DRAIN_OUT + "        return timings\n")],
    [V("F60 invariant: trailing drain in a second try (after the handler) that only logs and re-raises", "break", _R, _F60_DRAIN, "", "O18.7"),
     V("", "break", _R, _F60_END, "            raise\n        try:\n" + _F60_DRAIN + "        except Exception:\n            self.logger.exception(\"A stream of the composite has failed.\")\n            raise\n        return timings\n")],
    V("F60 invariant: the item loop split off into a try of its own that only handles the composite's own cancellation (its drains lose the clean-up)", "break", _R, _F60_DRAIN,
      "            pass\n        except asyncio.CancelledError:\n            for s in streams:\n                s.cancel()\n            raise\n        try:\n" + _F60_DRAIN, "O18.7"),
    [V("trailing drain inside the try through a helper that awaits gather", "keep", _R, "            if streams:\n                streams_timings = await asyncio.gather(*streams)\n                for stream_timings in streams_timings:\n                    timings += stream_timings\n        except",
       "            if streams:\n                streams_timings = await self._drain(streams)\n                for stream_timings in streams_timings:\n                    timings += stream_timings\n        except"),
     V("", "keep", _R, "    async def run_stream(self, es, stream, connection_limit):\n",
       "    @staticmethod\n    async def _drain(tasks):\n        return await asyncio.gather(*tasks)\n\n    async def run_stream(self, es, stream, connection_limit):\n")],
    V("trailing drain in a nested try that logs and re-raises INTO the clean-up handler", "keep", _R, _F60_DRAIN,
      "            try:\n" + "".join("    " + l + "\n" for l in _F60_DRAIN.split("\n") if l) + "            except Exception:\n                self.logger.exception(\"A stream of the composite has failed.\")\n                raise\n"),
]
