"""C18 — request timings span all sub-requests and never leak between clients (DESIGN.md section 4, C18)."""
from __future__ import annotations

import ast

from sa import pat, source
from sa.cfg import cfg_of, guards
from sa.classes import is_logging_stmt
from sa.minieval import CannotEval, ev
from sa.source import AnchorMissing, dotted, is_self_attr, last_attr, local_defs, params_of, short, u, walk_body

_C = "esrally/client/context.py"
_R = "esrally/driver/runner.py"
_D = "esrally/driver/driver.py"


_ABSENT = object()


class _Stuck(Exception):
    """the abstract run of a holder method left the interpreted fragment (or the code under analysis would raise)"""


def _context_var(cls) -> str | None:
    """name of the class-level ContextVar of the holder class (role: the attribute assigned from ContextVar(...))"""
    for n in getattr(cls, "body", []):
        if isinstance(n, ast.Assign) and isinstance(n.value, ast.Call) and last_attr(n.value.func) == "ContextVar" and isinstance(n.targets[0], ast.Name):
            return n.targets[0].id
    return None


def _is_ctx_get(e, cv) -> bool:
    """`<...>.<cv>.get()`: the current context's dict (a zero-argument get() is never dict.get)"""
    return isinstance(e, ast.Call) and not e.args and not e.keywords and isinstance(e.func, ast.Attribute) and e.func.attr == "get" and isinstance(e.func.value, ast.Attribute) \
        and (cv is None or e.func.value.attr == cv)


def _evaluable(e, cv):
    """copy of e in which the current-context read is the name __ctx__ and two-argument min()/max() are conditional expressions, so that minieval can evaluate it
    (a None operand then fails the comparison exactly as min()/max() would raise)."""

    class T(ast.NodeTransformer):
        def visit_Call(self, n):
            if _is_ctx_get(n, cv):
                return ast.Name(id="__ctx__", ctx=ast.Load())
            self.generic_visit(n)
            if dotted(n.func) in ("min", "max") and len(n.args) == 2 and not n.keywords and not any(isinstance(a, ast.Starred) for a in n.args):
                a, b = n.args
                return ast.IfExp(test=ast.Compare(left=a, ops=[ast.LtE() if dotted(n.func) == "min" else ast.GtE()], comparators=[b]), body=a, orelse=b)
            return n

    return ast.fix_missing_locations(T().visit(source.clone(e)))


def apply_update(func, new_name: str, new_val, state: dict, cv) -> dict:
    """Abstract run of the holder method `func` with its value parameter bound to new_val on a copy of the context dict `state`; returns the dict afterwards.
    Interprets assignments to locals / to keys of the context dict, if, pass, return and logging statements; anything else (or an evaluation failure) raises _Stuck."""
    ctxd = dict(state)
    env = {new_name: new_val, "__ctx__": ctxd}

    def val(e):
        try:
            return ev(_evaluable(e, cv), env)
        except CannotEval as x:
            raise _Stuck(str(x))

    class _Return(Exception):
        pass

    def block(stmts):
        for s in stmts:
            if is_logging_stmt(s) or isinstance(s, ast.Pass) or (isinstance(s, ast.Expr) and isinstance(s.value, ast.Constant)):
                continue
            if isinstance(s, ast.If):
                block(s.body if val(s.test) else s.orelse)
            elif isinstance(s, ast.Return):
                raise _Return()
            elif isinstance(s, ast.Assign) and len(s.targets) == 1 and isinstance(s.targets[0], ast.Name):
                env[s.targets[0].id] = val(s.value)
            elif isinstance(s, ast.Assign) and len(s.targets) == 1 and isinstance(s.targets[0], ast.Subscript):
                d, k, v = val(s.targets[0].value), val(s.targets[0].slice), val(s.value)
                if d is not ctxd:
                    raise _Stuck(f"store into {u(s.targets[0].value)}")
                d[k] = v
            else:
                raise _Stuck(f"statement {short(s, 60)}")

    try:
        block(func.body)
    except _Return:
        pass
    return ctxd


_REF = {"min": lambda c, n: n if c is _ABSENT else min(c, n), "max": lambda c, n: n if c is _ABSENT else max(c, n), "first": lambda c, n: n if c is _ABSENT else c, "last": lambda c, n: n}
_CUR = (_ABSENT, 0.0, 5.0)  # reachable values of the recorded time (0.0: a recorded time is not 'missing' because it is falsy)
_NEW = (0.0, 3.0, 5.0, 7.0)


def merge_kind(func, key: str):
    """Classify how `func(new)` merges `new` into meta[key]: 'min' | 'max' | 'first' | 'last' | 'unknown'. Also whether None is ignored.
    Decided by value: the method body is evaluated on every (recorded value, new value) pair of a small domain, with and without the sibling timing key present, and the
    resulting table is compared with the tables of the four operators; a missing (None) new value must leave the context observationally unchanged."""
    ps = [p for i, p in enumerate(params_of(func)) if not (i == 0 and p in ("self", "cls"))]
    stores = [n for n in walk_body(func) if isinstance(n, ast.Assign) and isinstance(n.targets[0], ast.Subscript) and source.is_const(n.targets[0].slice, key)]
    if not stores:
        return "unknown", False, None
    if len(ps) != 1:
        return "unknown", False, stores[0]
    new = ps[0]
    cv = _context_var(source.enclosing_class(func))
    other = {"request_start": ("request_end", 6.0), "request_end": ("request_start", 4.0)}.get(key)
    extras = [{}] + ([{other[0]: other[1]}] if other else [])

    def states():
        for x in extras:
            for c in _CUR:
                yield c, dict(x, **({} if c is _ABSENT else {key: c}))

    kinds = set(_REF)
    for c, st in states():
        for n in _NEW:
            try:
                got = apply_update(func, new, n, st, cv).get(key, _ABSENT)
            except _Stuck:
                kinds = set()
                break
            kinds = {k for k in kinds if _REF[k](c, n) == got and got is not _ABSENT}
    none_safe = True
    for c, st in states():
        try:
            after = apply_update(func, new, None, st, cv)
            same = after.get(key) == st.get(key) and all(apply_update(func, new, n, after, cv).get(key) == apply_update(func, new, n, st, cv).get(key) for n in (3.0, 7.0))
        except _Stuck:
            same = False
        none_safe = none_safe and same
    return (kinds.pop() if len(kinds) == 1 else "unknown"), none_safe, stores[0]


def _bound_context(w) -> str:
    """the local a `with <client>.new_request_context() as V` statement binds the context object to"""
    for i in w.items:
        if "new_request_context" in u(i.context_expr):
            if isinstance(i.optional_vars, ast.Name):
                return i.optional_vars.id
            raise AnchorMissing(f"request context at line {w.lineno} is not bound to a local (with ... as <name>)")
    raise AnchorMissing(f"with statement at line {w.lineno} opens no request context")


def propagation_guard_rule(chk, rid, ctx):
    """RequestContextManager.__exit__ hands its start / end to the enclosing context whenever there is one — also when the block ends with an exception (a failed sub-request of a
    composite still belongs to the logical request). The only guard fact allowed is "the token has an old value". Shared with C04 (service time under error outcomes)."""
    from sa import pat
    RCM = ctx.cls("RequestContextManager")
    ex = ctx.methods(RCM).get("__exit__")
    if ex is None:
        raise AnchorMissing("RequestContextManager.__exit__")
    props = [c for c in source.calls_in(ex) if isinstance(c.func, ast.Attribute) and is_self_attr(c.func.value, "ctx_holder") and c.func.attr not in ("restore_context",)]
    if not props:
        raise AnchorMissing("propagation calls in RequestContextManager.__exit__")
    for p in props:
        fs = pat.fact_nodes(p)
        ok = len(fs) == 1 and pat.is_(fs[0], "self.token.old_value != contextvars.Token.MISSING", "self.token.old_value is not contextvars.Token.MISSING", "contextvars.Token.MISSING is not self.token.old_value")
        chk.ob(rid, "propagation only when a parent context exists", ok, p, f"guards {[(u(t), pol) for t, pol in guards(p)]}")


_A = "esrally/client/asynchronous.py"
_F = "esrally/client/factory.py"
_NODE_API = "perform_request"  # the method of the transport library's node interface that issues ONE wire request (AsyncTransport calls it once per attempt)
_EXC_SIGNAL = "on_request_exception"  # aiohttp's trace signal for a request that fails BEFORE its response headers have arrived


def _mentions(e, var: str, attrs) -> bool:
    """does expression e read <var>.<attr> for one of attrs"""
    return any(isinstance(n, ast.Attribute) and n.attr in attrs and isinstance(n.value, ast.Name) and n.value.id == var for n in ast.walk(e))


def timing_presence_table(node, cvn: str, defs: dict):
    """Decide on VALUES under which (start, end) of the context object `cvn` the expression `node` is evaluated: the guard facts of node (explicit branches, conditional
    expressions and the negated conditions of preceding guard clauses) that speak about the context's start / end are evaluated - seen through single-assignment locals - on every
    combination of a missing (None), a falsy-but-legal (0.0) and an ordinary time. Returns ({(start, end): reached?}, [texts of the facts used]); raises CannotEval."""
    from sa.minieval import Record

    facts = []
    for f in pat.fact_nodes(node):
        fi = source.inline_node(f, defs)
        if _mentions(fi, cvn, ("request_start", "request_end")):
            facts.append(fi)
    table = {}
    for s in (None, 0.0, 5.0):
        for e in (None, 0.0, 7.0):
            env = {cvn: Record(request_start=s, request_end=e)}
            table[(s, e)] = all(bool(ev(f, dict(env))) for f in facts)
    return table, [u(f) for f in facts]


def _holder_names(mod) -> set:
    """names under which the request context holder (context.RequestContextHolder or a class of `mod` deriving from it) can be addressed in module `mod`"""
    names = {k for k, v in mod.imports.items() if v == "esrally.client.context.RequestContextHolder"}
    grew = True
    while grew:
        grew = False
        for c in mod.classes():
            if c.name not in names and any(last_attr(b) in names for b in c.bases):
                names.add(c.name)
                grew = True
    return names


def _end_recorders(repo):
    """(zero-argument recorders, one-argument merges): holder methods that stamp the END of a wire request - by data flow: a merge stores the context's 'request_end' from its
    parameter; a recorder hands a monotonic clock read to such a merge."""
    ctx = repo.module(_C)
    hm = ctx.methods(ctx.cls("RequestContextHolder"))
    merges = {nm for nm, f in hm.items() if any(isinstance(n, ast.Assign) and isinstance(n.targets[0], ast.Subscript) and source.is_const(n.targets[0].slice, "request_end") for n in walk_body(f))}
    recs = {nm for nm, f in hm.items() if any(isinstance(n, ast.Call) and last_attr(n.func) in merges and len(n.args) == 1
                                               and pat.is_(source.inline_node(n.args[0], local_defs(f)), "time.perf_counter()") for n in walk_body(f))}
    if not merges or not recs:
        raise AnchorMissing("RequestContextHolder: no method records the end of a wire request (store of 'request_end' / clock read handed to it)")
    return recs, merges


_NODE_FAILURES = ("elastic_transport.TransportError",)  # root of what the library's node raises for a failed wire request (ConnectionTimeout, ConnectionError, TlsError, ...)


def _absorbed_transport_failures(repo, hier) -> list:
    """exception classes of a failed WIRE request that still yield a sample: the library's node-level failure root(s), provided an absorbing handler of the executor's
    execute_single catches them by the parsed library hierarchy (an exception that is not absorbed ends the task - no timing is recorded for it at all)."""
    from sa.exc import handler_type_names

    drv = repo.module(_D)
    es = drv.func("execute_single")
    g = cfg_of(es)
    out = []
    for t in (n for n in walk_body(es) if isinstance(n, ast.Try)):
        for h in t.handlers:
            if not any(g.exit.id in g.reachable([x]) for x in g.by_ast.get(id(h), [])):
                continue  # the handler raises on every path
            out += [c for c in _NODE_FAILURES if c not in out and hier.catches(handler_type_names(h, drv), c)]
    if not out:
        raise AnchorMissing("execute_single: no absorbing handler for the transport-level failure classes (which failed wire requests still produce a sample?)")
    return out


def node_failure_end(repo) -> dict:
    """How the async HTTP node of the client records the END of a wire request that FAILS. aiohttp signals `on_request_exception` only until the response headers have arrived;
    a request that fails later (timeout / disconnect while elastic_transport reads the body) is seen by nobody but the node's own perform_request. Decided on the CFG of the
    node class's perform_request override, per exception class C of a failed wire request that still yields a sample: the first interceptor of C among the exceptional
    successors of the delegating call (handlers in order, by the library exception hierarchy; a finally block; else the function's raise exit) must lead through an end-recorder
    call of the request context holder on every path (attempted unconditionally), and must not complete normally (the failure still propagates).
    Returns {"cls", "method", "site", "rows": [(C, recorded, propagates, detail)], "ok": all recorded}; method None: the node class does not override perform_request."""
    from sa.exc import Hierarchy, handler_type_names

    if getattr(repo, "_c18_node_failure_end", None) is not None:
        return repo._c18_node_failure_end
    mod = repo.module(_A)
    ncs = {n.value.id for n in ast.walk(mod.tree) if isinstance(n, ast.keyword) and n.arg == "node_class" and isinstance(n.value, ast.Name)}
    cands = [c for c in mod.classes() if c.name in ncs]
    if len(cands) != 1:
        raise AnchorMissing(f"{_A}: the node class handed to the transport (node_class=<Class>) could not be identified ({sorted(ncs)})")
    ncls = cands[0]
    hier = Hierarchy()
    classes = _absorbed_transport_failures(repo, hier)
    pr = mod.methods(ncls).get(_NODE_API)
    res = {"cls": ncls, "method": pr, "site": pr if pr is not None else ncls, "rows": [], "ok": False}
    if pr is None:
        res["rows"] = [(c, False, True, f"{ncls.name} does not override {_NODE_API}: a failure after the response headers is seen by no rally code") for c in classes]
        repo._c18_node_failure_end = res
        return res
    dels = [n for n in walk_body(pr) if isinstance(n, ast.Call) and isinstance(n.func, ast.Attribute) and n.func.attr == _NODE_API
            and ((isinstance(n.func.value, ast.Call) and dotted(n.func.value.func) == "super") or last_attr(n.func.value) in {last_attr(b) for b in ncls.bases})]
    if len(dels) != 1:
        raise AnchorMissing(f"{_A}: {ncls.name}.{_NODE_API} does not delegate exactly once to the library's {_NODE_API} ({len(dels)} delegating call(s))")
    recs, merges = _end_recorders(repo)
    holders = _holder_names(mod)
    ends = [n for n in walk_body(pr) if isinstance(n, ast.Call) and isinstance(n.func, ast.Attribute) and last_attr(n.func.value) in holders
            and ((n.func.attr in recs and not n.args) or (n.func.attr in merges and len(n.args) == 1 and pat.is_(source.inline_node(n.args[0], local_defs(pr)), "time.perf_counter()")))]
    g = cfg_of(pr)
    end_nodes = [x for c in ends for x in g.nodes_of(c)]
    dn = g.node_of(dels[0])
    exc_succ = [g.nodes[y] for (y, lab) in g.succ[dn.id] if not g.normal_edge(dn.id, y, lab)]  # inner-to-outer, handlers of one try in source order

    def edge_ok(x, y, lab):  # entering `with [contextlib.]suppress(...)` does not fail: its exception edge is not a way around the call it protects
        nx = g.nodes[x]
        return not (nx.kind == "with" and not g.normal_edge(x, y, lab) and all(isinstance(i.context_expr, ast.Call) and last_attr(i.context_expr.func) == "suppress" for i in nx.ast.items))

    for c in classes:
        first = None
        for x in exc_succ:
            if x.kind == "except" and not hier.catches(handler_type_names(x.ast, mod), c):
                continue
            first = x
            break
        if first is None or first is g.raise_exit:
            res["rows"].append((c, False, True, f"a {c} raised by the wire request leaves {_NODE_API} without passing any handler"))
            continue
        away = g.reachable([first], avoid=end_nodes, edge_ok=edge_ok)  # what the failure can reach without attempting an end-recorder call
        recorded = bool(end_nodes) and g.exit.id not in away and g.raise_exit.id not in away
        propagates = g.exit.id not in g.reachable([first])
        how = f"except {u(first.ast.type) if first.ast.type is not None else ''}".strip() if first.kind == "except" else "finally"
        pth = None
        if not recorded:  # for the report prefer a path on which nothing but an explicit `raise` raises
            for eo in (lambda x, y, lab: edge_ok(x, y, lab) and not lab.startswith("exc"), edge_ok):
                pth = pth or g.find_path(first, g.raise_exit, avoid=end_nodes, edge_ok=eo) or g.find_path(first, g.exit, avoid=end_nodes, edge_ok=eo)
        res["rows"].append((c, recorded, propagates, f"intercepted by `{how}` at line {getattr(first.ast, 'lineno', '?')}; {len(ends)} end-recorder call(s)"
                            + ("" if recorded else f"; path without one: {' '.join(g.describe_path(pth)) if pth else '?'}")))
    res["ok"] = all(r[1] for r in res["rows"])
    repo._c18_node_failure_end = res
    return res


def trace_hook_table(chk, rid, repo):
    """The signals that start / stop the service-time clock of ONE wire request (owned by C18, shared with C04/O4.2): the start callback is registered for aiohttp's request start
    only; the stop callback for every response chunk (so the LAST chunk counts) and for request end; no request-side signal stops the clock; and a wire request that FAILS has
    its end recorded unconditionally by at least one of (the exception trace hook, the node-level perform_request handler). Since F39 the node-level handler records the end of
    every failed request (before or after the headers), so a conditional / absent exception hook is behaviour-preserving as long as that handler is in place; without it the
    exception hook must be the plain stop callback."""
    fac = repo.module(_F)
    chk.use(fac, repo.module(_A))
    f = fac.methods(fac.cls("EsClientFactory")).get("create_async")
    if f is None:
        raise AnchorMissing("EsClientFactory.create_async")
    tc = [n for n in walk_body(f) if isinstance(n, ast.Assign) and isinstance(n.value, ast.Call) and last_attr(n.value.func) == "TraceConfig" and isinstance(n.targets[0], ast.Name)]
    if not tc:
        raise AnchorMissing("aiohttp.TraceConfig() in create_async")
    tv = tc[0].targets[0].id
    role = {}
    for d in walk_body(f):
        if isinstance(d, (ast.AsyncFunctionDef, ast.FunctionDef)):
            called = {last_attr(c.func) for c in ast.walk(d) if isinstance(c, ast.Call)}
            # a callback has a role only if its body is the single unconditional call (docstring / logging aside)
            body_ = [st_ for st_ in d.body if not (isinstance(st_, ast.Expr) and isinstance(st_.value, ast.Constant)) and not is_logging_stmt(st_)]
            plain = len(body_) == 1 and isinstance(body_[0], ast.Expr) and isinstance(body_[0].value, (ast.Call, ast.Await))
            if "on_request_start" in called and "on_request_end" not in called:
                role[d.name] = "start" if plain else "conditional start"
            elif "on_request_end" in called and "on_request_start" not in called:
                role[d.name] = "stop" if plain else "conditional stop"
    table = {}
    for n in walk_body(f):
        if isinstance(n, ast.Call) and last_attr(n.func) == "append" and isinstance(n.func.value, ast.Attribute) and isinstance(n.func.value.value, ast.Name) and n.func.value.value.id == tv and n.args:
            table.setdefault(n.func.value.attr, []).append(role.get(u(n.args[0]), u(n.args[0])))
    try:
        nf = node_failure_end(repo)
        node_ok = nf["ok"]
        node_detail = "records it unconditionally" if node_ok else "; ".join(r[3] for r in nf["rows"] if not r[1])[:200]
    except AnchorMissing as e:  # the node-level handler cannot be located: only the trace hook can vouch for the failure path
        node_ok, node_detail = False, f"not located ({e})"
    want = {"on_request_start": ["start"], "on_response_chunk_received": ["stop"], "on_request_end": ["stop"], _EXC_SIGNAL: ["stop"]}
    for sig in sorted(set(want) | set(table)):
        got = table.get(sig, [])
        ok = (got == want[sig]) if sig in want else not any(r.endswith(("start", "stop")) for r in got)
        detail = f"registered: {got or 'nothing'}"
        if sig == _EXC_SIGNAL:
            # at least one of the two recorders of a failed request's end is unconditional; with the node-level handler in place the hook may be conditional or absent,
            # but nothing other than a stop callback may hang on the signal
            ok = ok or (node_ok and all(r in ("stop", "conditional stop") for r in got))
            detail += f"; node-level {_NODE_API} handler: {node_detail}"
        chk.ob(rid, f"trace signal {sig} -> {want.get(sig, ['(nothing)'])[0]} the service-time clock", ok, tc[0], detail + ("" if ok else
               (" — the clock stops before the response body has arrived" if sig not in want and "stop" in got else
                ((" — neither the exception hook nor the node-level handler records the end of a failed request unconditionally" if not node_ok else
                  " — something other than the stop callback hangs on the failure signal") if sig == _EXC_SIGNAL else
                 " — the span no longer ends with the last response chunk / an error"))),
               key=f"{_F}:EsClientFactory.create_async:trace:{sig}")
    used = [n for n in walk_body(f) if isinstance(n, ast.keyword) and n.arg == "trace_config" and u(n.value) == tv]
    anyuse = any(isinstance(n, ast.Name) and n.id == tv and isinstance(n.ctx, ast.Load) and not isinstance(source.parent(n), ast.Attribute) for n in walk_body(f))
    chk.ob(rid, "the trace configuration is handed to the client", bool(used) or anyuse, tc[0], "")


def run(chk):
    repo = chk.repo
    ctx, run_, drv = repo.module(_C), repo.module(_R), repo.module(_D)
    chk.use(ctx, run_, drv)
    chk.explanation = (
        "Decides the merge operator and isolation skeleton: values propagated from a child context to its parent on exit are merged with a commutative, idempotent, "
        "None-safe operator (min for the start, max for the end) so that the exit order of concurrent children cannot matter; all timing state is reached through one "
        "ContextVar whose only set installs a fresh dict and is reset on exit; propagation only when a parent exists; the executor and the composite's per-operation wrapper "
        "each enclose exactly one delegate call in their own context and read start/end from that context; the wrapper computes over start/end only when both are present "
        "(decided on None / 0.0 / ordinary values); a failed wire request's end is recorded by the node-level perform_request handler on every exceptional exit."
    )
    chk.not_decided = "asyncio scheduling, aiohttp trace timing (which signals aiohttp emits when), clock behaviour."
    RCM = ctx.cls("RequestContextManager")
    RCH = ctx.cls("RequestContextHolder")
    hm = ctx.methods(RCH)
    mm = ctx.methods(RCM)

    # ---- O18.1 order-insensitive propagation -------------------------------------------------------------------------------------------
    chk.rule("O18.1", "values propagated from a child context to its parent at exit are merged with a commutative, idempotent, None-safe operator: min for the start, max for the end", 4,
             "two concurrent streams where the later-started one finishes first: the logical request's start is not the earliest start (or a sub-context without a request overwrites a value with None)")
    ex = mm.get("__exit__")
    if ex is None:
        raise AnchorMissing("RequestContextManager.__exit__")
    props = [c for c in source.calls_in(ex) if isinstance(c.func, ast.Attribute) and is_self_attr(c.func.value, "ctx_holder") and c.func.attr not in ("restore_context",)]
    if len(props) < 1:
        raise AnchorMissing("propagation calls in RequestContextManager.__exit__")
    want = {"request_start": "min", "request_end": "max"}
    seen = set()
    exdefs = local_defs(ex)
    for c in props:
        f = hm.get(c.func.attr)
        if f is None:
            chk.ob("O18.1", f"propagation via {c.func.attr}", False, c, "unknown holder method")
            continue
        argt = source.inline(c.args[0], exdefs) if c.args else ""  # the propagated value, seen through single-assignment locals
        key = "request_start" if "request_start" in argt else ("request_end" if "request_end" in argt else None)
        if key is None:
            chk.ob("O18.1", f"propagated value {argt}", False, c, "not the context's own start/end")
            continue
        seen.add(key)
        kind, none_safe, store = merge_kind(f, key)
        chk.ob("O18.1", f"{key} merged into the parent with {want[key]}", kind == want[key], store if store is not None else f,
               f"operator of {f.name}: {kind}" + ("" if kind == want[key] else " — order-sensitive or wrong direction: the parent does not record the earliest start / latest end of all sub-requests"),
               key=f"{_C}:{f.name}:merge:{key}")
        chk.ob("O18.1", f"{key} merge ignores a missing child value", none_safe, store if store is not None else f, "" if none_safe else "a child context without a request propagates None", key=f"{_C}:{f.name}:none-safe:{key}")
    chk.ob("O18.1", "both start and end are propagated", seen == {"request_start", "request_end"}, ex, f"propagated: {sorted(seen)}")
    # the manager's properties read the same keys
    for p, key in (("request_start", "request_start"), ("request_end", "request_end")):
        f = mm.get(p)
        rets = [source.inline(n.value, local_defs(f)) for n in walk_body(f) if isinstance(n, ast.Return) and n.value is not None] if f is not None else []
        ok = any("self.ctx" in t and f"'{key}'" in t for t in rets)
        chk.ob("O18.1", f"context property {p} reads key '{key}'", ok, f if f is not None else RCM, "")
    # wire callbacks route through the same merge with the monotonic clock
    for cb, upd in (("on_request_start", "update_request_start"), ("on_request_end", "update_request_end")):
        f = hm.get(cb)
        ok = f is not None and any(isinstance(n, ast.Call) and last_attr(n.func) == upd and n.args and pat.is_(source.inline_node(n.args[0], local_defs(f)), "time.perf_counter()") for n in walk_body(f))
        chk.ob("O18.1", f"{cb} records perf_counter() through {upd}", ok, f if f is not None else RCH, "")

    trace_hook_table(chk, "O18.1", repo)

    # ---- O18.5 the end of a FAILED wire request (F39) -------------------------------------------------------------------------------------------
    chk.rule("O18.5", "a wire request that fails has its end recorded when it fails, also after its response headers have arrived: the client's HTTP node overrides the library's "
             "perform_request, and every transport-level failure that still yields a sample passes an unconditional end-recorder call of the request context holder before it "
             "leaves the node, and still leaves it as a failure", 2,
             "a request that times out / is disconnected while its body is read is recorded as ending when its HEADERS arrived (aiohttp's on_request_exception is only signalled "
             "until then): the recorded end is not the latest end of all HTTP requests of the logical request")
    nf = node_failure_end(repo)
    nname = f"{nf['cls'].name}.{_NODE_API}"
    for c, recorded, propagates, detail in nf["rows"]:
        chk.ob("O18.5", f"a wire request failing with {c} ends (holder end-recorder, unconditional) before the failure leaves the node", recorded, nf["site"], detail,
               key=f"{_A}:{nname}:end-on-failure:{c}")
        chk.ob("O18.5", f"a wire request failing with {c} still fails (the node-level handler re-raises)", propagates, nf["site"],
               "" if propagates else "a path through the interceptor completes normally: the failed request is reported as a response", key=f"{_A}:{nname}:failure-propagates:{c}")

    # ---- O18.2 isolation ---------------------------------------------------------------------------------------------------------------------
    chk.rule("O18.2", "all timing state is reached through one ContextVar; its only set installs a fresh dict; reset(token) on exit before propagation; propagation only when the token had an old value; "
             "no module- or class-level mutable timing state", 6,
             "two clients in one process: one client's request timings leak into the other's samples")
    cvars = [n for n in RCH.body if isinstance(n, ast.Assign) and isinstance(n.value, ast.Call) and last_attr(n.value.func) == "ContextVar"]
    chk.ob("O18.2", "one ContextVar holds the request context", len(cvars) == 1, cvars[0] if cvars else RCH, f"{len(cvars)} ContextVar(s)")
    cv = cvars[0].targets[0].id if cvars else "request_context"
    mut = [n for n in list(RCH.body) + list(ctx.tree.body) if isinstance(n, ast.Assign) and isinstance(n.value, (ast.Dict, ast.List, ast.Set)) or
           (isinstance(n, ast.Assign) and isinstance(n.value, ast.Call) and dotted(n.value.func) in ("dict", "list", "set", "collections.defaultdict"))]
    chk.ob("O18.2", "no module/class-level mutable container in the context module", not mut, mut[0] if mut else RCH, "")
    sets = [n for n in ast.walk(ctx.tree) if isinstance(n, ast.Call) and last_attr(n.func) == "set" and isinstance(n.func, ast.Attribute) and last_attr(n.func.value) == cv]
    ok = len(sets) == 1
    fresh = False
    if ok and sets[0].args:
        a = sets[0].args[0]
        f = source.enclosing_func(sets[0])
        d = local_defs(f).get(a.id) if isinstance(a, ast.Name) and f is not None else a  # the installed value, through the local it was built in
        fresh = isinstance(d, ast.Dict) and not d.keys
    chk.ob("O18.2", "single ContextVar.set, installing a fresh dict", ok and fresh, sets[0] if sets else RCH, f"{len(sets)} set site(s), fresh={fresh}")
    if sets and source.enclosing_func(sets[0]) is not None:
        f = source.enclosing_func(sets[0])
        r = [n for n in walk_body(f) if isinstance(n, ast.Return)]
        ok = len(r) == 1 and isinstance(r[0].value, ast.Tuple) and len(r[0].value.elts) == 2
        chk.ob("O18.2", "init returns (dict, token)", ok, f, "")
    ent = mm.get("__enter__")
    ok = ent is not None and any(isinstance(n, ast.Assign) and isinstance(n.targets[0], ast.Tuple) and [u(t) for t in n.targets[0].elts] == ["self.ctx", "self.token"]
                                 and pat.is_(source.inline_node(n.value, local_defs(ent)), "E_holder.init_request_context()") for n in walk_body(ent))
    chk.ob("O18.2", "__enter__ stores (ctx, token) from init_request_context()", ok, ent if ent is not None else RCM, "")
    g = cfg_of(ex)
    resets = [c for c in source.calls_in(ex) if last_attr(c.func) == "restore_context"]
    ok = len(resets) == 1 and len(resets[0].args) == 1 and source.inline(resets[0].args[0], exdefs) == "self.token" and not guards(resets[0]) and all(g.dominated_by_nodes(g.node_of(p), [g.node_of(resets[0])]) for p in props)
    chk.ob("O18.2", "context restored (reset(token)) unconditionally before propagation", ok, resets[0] if resets else ex, "")
    ok = bool(resets) and g.must_pass(g.entry, [g.node_of(r_) for r_ in resets])
    pth = None
    if resets and not ok:
        p_ = g.find_path(g.entry, g.exit, avoid=[g.node_of(r_) for r_ in resets])
        pth = g.describe_path(p_) if p_ else None
    chk.ob("O18.2", "every normal exit of __exit__ has restored the enclosing context", ok, resets[0] if resets else ex,
           "" if ok else "a path leaves the context manager without reset(token): later requests of the task are booked on the stale nested context", path=pth,
           key=f"{_C}:RequestContextManager.__exit__:restore-on-every-exit")
    rc = hm.get("restore_context")
    ok = rc is not None and any(isinstance(n, ast.Call) and isinstance(n.func, ast.Attribute) and n.func.attr == "reset" and last_attr(n.func.value) == cv and len(n.args) == 1
                                and source.inline(n.args[0], local_defs(rc)) == params_of(rc)[-1] for n in walk_body(rc))
    chk.ob("O18.2", "restore_context resets the ContextVar with the token", ok, rc if rc is not None else RCH, "")
    propagation_guard_rule(chk, "O18.2", ctx)
    # __exit__ does not swallow exceptions
    rets = [n for n in walk_body(ex) if isinstance(n, ast.Return)]
    ok = all(r.value is None or source.is_const(source.inline_node(r.value, exdefs), False) for r in rets)
    chk.ob("O18.2", "__exit__ never swallows exceptions", ok, ex, "")
    # every reader goes through ContextVar.get()
    for name, f in hm.items():
        for n in walk_body(f):
            if isinstance(n, ast.Subscript) and isinstance(n.value, ast.Name) and isinstance(n.ctx, ast.Store):
                d = local_defs(f).get(n.value.id)
                ok = isinstance(d, ast.Call) and isinstance(d.func, ast.Attribute) and d.func.attr == "get" and last_attr(d.func.value) == cv
                chk.ob("O18.2", f"{name}: timing written into the current context's dict", ok, n, f"{n.value.id} = {u(d) if d is not None else '?'}")

    # ---- O18.3 enclosure -------------------------------------------------------------------------------------------------------------------------
    chk.rule("O18.3", "the executor's runner invocation is inside a fresh request context per request and reads start/end from that context; the composite's per-operation wrapper "
             "encloses exactly the delegate call in its own context and computes its service time from that context; every sub-request of the composite is wrapped", 6,
             "a sub-request's timing covers its siblings, or the logical request misses sub-requests issued outside its context")
    from rules.C04 import request_loop

    call, L = request_loop(drv)
    withs = [n for n in ast.walk(L) if isinstance(n, ast.With) and any("new_request_context" in u(i.context_expr) for i in n.items)]
    ok = len(withs) == 1 and source.enclosing(withs[0], (ast.AsyncFor, ast.For, ast.While)) is L
    chk.ob("O18.3", "executor: one fresh request context per request (inside the loop)", ok, withs[0] if withs else L, "")
    if withs:
        cvn = _bound_context(withs[0])
        runs = [n for n in ast.walk(withs[0]) if isinstance(n, ast.Call) and last_attr(n.func) == "execute_single"]
        chk.ob("O18.3", "executor: runner invoked inside its context", len(runs) == 1, withs[0], "")
        reads = [n for n in ast.walk(L) if isinstance(n, ast.Attribute) and n.attr in ("request_start", "request_end") and isinstance(n.value, ast.Name)]
        ok = bool(reads) and all(r.value.id == cvn for r in reads)
        chk.ob("O18.3", "executor: start/end read from that context object", ok, reads[0] if reads else L, "")
        # reads happen after the runner returned
        gg = cfg_of(call)
        ok = all(gg.dominated_by_nodes(gg.node_of(r), [gg.node_of(runs[0])]) for r in reads) if runs else False
        chk.ob("O18.3", "executor: start/end read after the runner returned", ok, reads[0] if reads else L, "")
        # what the sample records as the start of the logical request is the context's (earliest) request start, not another clock reading of the same type
        adds = [n for n in ast.walk(L) if isinstance(n, ast.Call) and u(n.func) == "self.sampler.add"]
        sadd = drv.methods(drv.cls("Sampler")).get("add")
        ok = False
        detail = ""
        if adds and sadd is not None:
            ldefs = {n.targets[0].id: n.value for n in ast.walk(L) if isinstance(n, ast.Assign) and len(n.targets) == 1 and isinstance(n.targets[0], ast.Name)}
            b_ = source.bind_args(adds[0], sadd)
            rsv = b_.get("request_start")
            got = source.inline(rsv, ldefs, no_calls=True) if rsv is not None else None
            ok = got == f"{cvn}.request_start"
            detail = f"request_start := {got}"
        chk.ob("O18.3", "executor: the sample's request_start is the context's request_start", ok, adds[0] if adds else L, detail, key=f"{_D}:AsyncExecutor.__call__:sample-request-start")
    RT = run_.cls("RequestTiming")
    rt = run_.methods(RT).get("__call__")
    if rt is None:
        raise AnchorMissing("RequestTiming.__call__")
    rw = [n for n in walk_body(rt) if isinstance(n, ast.With) and any("new_request_context" in u(i.context_expr) for i in n.items)]
    ok = len(rw) == 1
    chk.ob("O18.3", "per-operation wrapper opens its own context", ok, rw[0] if rw else rt, "")
    if rw:
        cvn = _bound_context(rw[0])
        dels = [n for n in walk_body(rt) if isinstance(n, ast.Call) and u(n.func) == "self.delegate"]
        ok = len(dels) == 1 and rw[0] in list(source.ancestors(dels[0]))
        chk.ob("O18.3", "wrapper: exactly one delegate call, inside the context", ok, dels[0] if dels else rt, f"{len(dels)} delegate call(s)")
        rdefs = local_defs(rt)
        st = [n for n in ast.walk(rt) if isinstance(n, ast.Dict) and any(source.is_const(k, "service_time") for k in n.keys)]
        ok = False
        if st:
            d = dict((k.value, v) for k, v in zip(st[0].keys, st[0].values) if isinstance(k, ast.Constant))
            from sa.sym import parse_expr, rat_equal

            ok = rat_equal(source.inline_node(d["service_time"], rdefs), parse_expr(f"{cvn}.request_end - {cvn}.request_start")) \
                and all(d.get(k_) is not None and source.inline(d[k_], rdefs) == f"{cvn}.{k_}" for k_ in ("request_start", "request_end"))
        chk.ob("O18.3", "wrapper: service_time == ctx.request_end - ctx.request_start of its own context", ok, st[0] if st else rt, "")
        gr = cfg_of(rt)
        reads = [n for n in walk_body(rt) if isinstance(n, ast.Attribute) and n.attr in ("request_start", "request_end") and isinstance(n.value, ast.Name) and n.value.id == cvn]
        ok = bool(reads) and bool(dels) and all(gr.dominated_by_nodes(gr.node_of(r), [gr.node_of(dels[0])]) for r in reads)
        chk.ob("O18.3", "wrapper: timings read after the delegate returned", ok, reads[0] if reads else rt, "")
        # F38: a sub-request context without any wire request is a legal leaf of the context tree (get-async-search skips completed searches): its start and end are None.
        # Every arithmetic on the context's start / end must be unreachable for a missing value, and reachable for every pair of present values (0.0 is a time, not 'missing').
        arith = [n for n in walk_body(rt) if isinstance(n, ast.BinOp) and isinstance(n.op, (ast.Sub, ast.Add)) and _mentions(source.inline_node(n, rdefs), cvn, ("request_start", "request_end"))]
        wkey = f"{_R}:RequestTiming.__call__"
        if not arith:
            chk.ob("O18.3", "wrapper: no arithmetic on a missing start / end (a sub-request that sent no wire request)", False, st[0] if st else rt,
                   "no computation over the context's request_start / request_end found in the wrapper", key=f"{wkey}:timing-none-guard")
        for n in arith:
            try:
                table, facts = timing_presence_table(n, cvn, rdefs)
            except CannotEval as x:
                chk.unknown("O18.3", f"wrapper: a guard of `{short(n, 50)}` that speaks about the context's start / end cannot be evaluated ({x})", n)
                continue
            crash = sorted((k for k, reached in table.items() if reached and None in k), key=lambda k: (sum(v is not None for v in k), str(k)))  # the all-missing row first
            lost = sorted((k for k, reached in table.items() if not reached and None not in k), key=str)
            chk.ob("O18.3", "wrapper: no arithmetic on a missing start / end (a sub-request that sent no wire request)", not crash, n,
                   f"`{short(n, 50)}` under {facts or 'no guard on start / end'}" + ("" if not crash else f": evaluated for (start, end) = {crash[0]} -> TypeError, the task fails although "
                                                                                   "the composite's other sub-requests were timed"), key=f"{wkey}:timing-none-guard")
            chk.ob("O18.3", "wrapper: a sub-request that did send a request keeps its timing whatever the values (0.0 is a time)", not lost, n,
                   f"`{short(n, 50)}` under {facts or 'no guard on start / end'}" + ("" if not lost else f": skipped for (start, end) = {lost[0]}"), key=f"{wkey}:timing-kept-when-present")
    CO = run_.cls("Composite")
    rs = run_.methods(CO).get("run_stream")
    if rs is None:
        raise AnchorMissing("Composite.run_stream")
    rf = [n for n in walk_body(rs) if isinstance(n, ast.Call) and last_attr(n.func) == "runner_for"]
    ok = bool(rf) and all(isinstance(source.parent(n), ast.Call) and last_attr(source.parent(n).func) == "RequestTiming" for n in rf)
    chk.ob("O18.3", "composite: every dispatched sub-request runner is wrapped in the timing wrapper", ok, rf[0] if rf else rs, f"{len(rf)} dispatch site(s)")
    cc = run_.methods(CO).get("__call__")
    ok = cc is not None and any(isinstance(n, ast.Call) and last_attr(n.func) == "run_stream" for n in walk_body(cc))
    chk.ob("O18.3", "composite runs its streams from __call__", ok, cc if cc is not None else CO, "")
    # O18.4 advisory: concurrent streams as tasks created in the composite's context
    ct = [n for n in walk_body(rs) if isinstance(n, ast.Call) and dotted(n.func) == "asyncio.create_task"]
    if not ct:
        chk.adv("O18.4", "composite streams are no longer started with asyncio.create_task inside run_stream (context chaining to the request's dict not established this way)", rs)


from sa.selftest import V  # noqa: E402

_MIN = "            meta[\"request_start\"] = new_request_start if current is None else min(current, new_request_start)"
_MAX = "            meta[\"request_end\"] = new_request_end if current is None else max(current, new_request_end)"
_F38_IF = "            if start is not None and end is not None:\n"
_F38_KEYS = ["\"operation\": params.get(\"name\"),", "\"operation-type\": params.get(\"operation-type\"),", "\"absolute_time\": absolute_time,", "\"request_start\": start,", "\"request_end\": end,",
             "\"service_time\": end - start,"]
_F38_DICT = "                result[\"dependent_timing\"] = {\n" + "".join(f"                    {k}\n" for k in _F38_KEYS) + "                }\n"
_F38_DICT_FLAT = "            result[\"dependent_timing\"] = {\n" + "".join(f"                {k}\n" for k in _F38_KEYS) + "            }\n"
_F39_EXCEPT = "        except BaseException:\n"
_F39_COMMENT = ("            # aiohttp only signals `on_request_exception` until the response *headers* have arrived. A request that fails\n"
                "            # later (timeout / disconnect while the body is read) ends now and not when its headers were received.\n")
_F39_TAIL = "            try:\n                RequestContextHolder.on_request_end()\n            except LookupError:\n                pass\n            raise\n"
_F39_BODY = _F39_COMMENT + _F39_TAIL
_F39_METHOD = ("    async def perform_request(self, *args, **kwargs):\n        try:\n            return await super().perform_request(*args, **kwargs)\n" + _F39_EXCEPT + _F39_BODY + "\n")
VARIANTS = [
    V("F7: first-start-wins", "break", _C, "        if new_request_start is not None:\n            current = meta.get(\"request_start\")\n" + _MIN, "        if \"request_start\" not in meta:\n            meta[\"request_start\"] = new_request_start", "O18.1"),
    V("F7: last-end-wins", "break", _C, "        if new_request_end is not None:\n            current = meta.get(\"request_end\")\n" + _MAX, "        meta[\"request_end\"] = new_request_end", "O18.1"),
    V("seed C04-m3: start merged with max", "break", _C, _MIN, _MIN.replace("min(", "max("), "O18.1"),
    V("None not ignored for the end", "break", _C, "        if new_request_end is not None:\n            current", "        if True:\n            current", "O18.1"),
    V("end not propagated", "break", _C, "            self.ctx_holder.update_request_end(self.request_end)\n", "", "O18.1"),
    V("module-level dict instead of ContextVar value", "break", _C, "        ctx = {}\n        token = cls.request_context.set(ctx)", "        ctx = _SHARED\n        token = cls.request_context.set(ctx)", "O18.2"),
    V("propagate even without parent", "break", _C, "        if self.token.old_value != contextvars.Token.MISSING:", "        if True:", "O18.2"),
    V("propagate before restore", "break", _C, "        self.ctx_holder.restore_context(self.token)\n        # don't attempt", "        # don't attempt", "O18.2"),
    V("__exit__ swallows", "break", _C, "        self.token = None\n        return False", "        self.token = None\n        return True", "O18.2"),
    V("runner outside the context", "break", _D, "                with self.es[\"default\"].new_request_context() as request_context:\n                    total_ops, total_ops_unit, request_meta_data = await execute_single(runner, self.es, params, self.on_error)\n                    request_start",
      "                total_ops, total_ops_unit, request_meta_data = await execute_single(runner, self.es, params, self.on_error)\n                with self.es[\"default\"].new_request_context() as request_context:\n                    request_start", "O18.3"),
    V("wrapper reads times before the delegate", "break", _R, "        with es[\"default\"].new_request_context() as request_context:\n            return_value = await self.delegate(es, params)\n", "        with es[\"default\"].new_request_context() as request_context:\n            start = request_context.request_start\n            return_value = await self.delegate(es, params)\n", "O18.3"),
    V("composite dispatch unwrapped", "break", _R, "                    runner = RequestTiming(runner_for(op_type))", "                    runner = runner_for(op_type)", "O18.3"),
    # F38 (48adc37): the wrapper computes over start / end only when both are present
    V("F38: textual revert (dependent_timing unguarded)", "break", _R, _F38_IF + _F38_DICT, _F38_DICT_FLAT, "O18.3"),
    V("F38: guard on the start only", "break", _R, _F38_IF, "            if start is not None:\n", "O18.3"),
    V("F38: truthiness guard (0.0 is a time)", "break", _R, _F38_IF, "            if start and end:\n", "O18.3"),
    V("F38: either present", "break", _R, _F38_IF, "            if start is not None or end is not None:\n", "O18.3"),
    # F39 (09d2ce8): the node-level perform_request records the end of a failed wire request
    V("F39: textual revert (no perform_request override)", "break", _A, _F39_METHOD, "", "O18.5"),
    V("F39: handler only for the client-side timeout", "break", _A, _F39_EXCEPT, "        except asyncio.TimeoutError:\n", "O18.5"),
    V("F39: end kept only if the context has none yet", "break", _A, "                RequestContextHolder.on_request_end()\n",
      "                if RequestContextHolder.request_context.get().get(\"request_end\") is None:\n                    RequestContextHolder.on_request_end()\n", "O18.5"),
    V("F39: handler swallows the failure", "break", _A, "            except LookupError:\n                pass\n            raise\n", "            except LookupError:\n                pass\n", "O18.5"),
    [V("F39 reverted AND exception hook conditional (benign C18-x6 is only benign with F39)", "break", _A, _F39_METHOD, "", "O18.1"),
     V("", "break", _F, "        trace_config = aiohttp.TraceConfig()\n", "        async def on_request_exception(session, trace_config_ctx, params):\n"
       "            if RallyAsyncElasticsearch.request_context.get().get(\"request_end\") is None:\n                RallyAsyncElasticsearch.on_request_end()\n\n"
       "        trace_config = aiohttp.TraceConfig()\n"),
     V("", "break", _F, "        trace_config.on_request_exception.append(on_request_end)", "        trace_config.on_request_exception.append(on_request_exception)")],
    [V("exception hook dropped AND node handler conditional", "break", _A, "                RequestContextHolder.on_request_end()\n",
       "                if RequestContextHolder.request_context.get().get(\"request_end\") is None:\n                    RequestContextHolder.on_request_end()\n", "O18.1"),
     V("", "break", _F, "        trace_config.on_request_exception.append(on_request_end)\n", "")],
    V("start callback hung on the exception signal", "break", _F, "        trace_config.on_request_exception.append(on_request_end)", "        trace_config.on_request_exception.append(on_request_start)", "O18.1"),
    # preserving
    V("F38: negated disjunction", "keep", _R, _F38_IF, "            if not (start is None or end is None):\n"),
    V("F38: guard clause", "keep", _R, _F38_IF + _F38_DICT, "            if start is None or end is None:\n                return result\n" + _F38_DICT_FLAT),
    V("F38: no temporaries in the guard, operands swapped", "keep", _R, _F38_IF, "            if request_context.request_end is not None and request_context.request_start is not None:\n"),
    V("F38: membership test", "keep", _R, _F38_IF, "            if None not in (start, end):\n"),
    V("F38: nested ifs", "keep", _R, _F38_IF, "            if end is not None:\n              if start is not None:\n"),
    V("F39: except Exception (every failure that yields a sample is an Exception)", "keep", _A, _F39_EXCEPT, "        except Exception:\n"),
    V("F39: bare except, bound re-raise through the subclass holder", "keep", _A, _F39_EXCEPT + _F39_BODY,
      "        except BaseException as e:\n            try:\n                RallyAsyncElasticsearch.on_request_end()\n            except LookupError:\n                pass\n            raise e\n"),
    [V("F39: contextlib.suppress instead of try/except/pass", "keep", _A, "            try:\n                RequestContextHolder.on_request_end()\n            except LookupError:\n                pass\n",
       "            with contextlib.suppress(LookupError):\n                RequestContextHolder.on_request_end()\n"),
     V("", "keep", _A, "import asyncio\nimport json\n", "import asyncio\nimport contextlib\nimport json\n")],
    [V("F39: clock read handed to the merge directly, result through a temporary", "keep", _A, "            return await super().perform_request(*args, **kwargs)\n" + _F39_EXCEPT + _F39_BODY,
       "            response = await AiohttpHttpNode.perform_request(self, *args, **kwargs)\n            return response\n" + _F39_EXCEPT
       + "            try:\n                RequestContextHolder.update_request_end(time.perf_counter())\n            except LookupError:\n                pass\n            raise\n"),
     V("", "keep", _A, "import logging\nimport warnings\n", "import logging\nimport time\nimport warnings\n")],
    V("benign C18-x6 shape: exception hook absent (node-level handler records the end)", "keep", _F, "        trace_config.on_request_exception.append(on_request_end)\n", ""),
    V("min via guarded assignment", "keep", _C, _MIN, "            if current is None or new_request_start < current:\n                meta[\"request_start\"] = new_request_start"),
    V("max via conditional expression", "keep", _C, _MAX, "            meta[\"request_end\"] = new_request_end if current is None else (new_request_end if new_request_end > current else current)"),
    V("is not MISSING", "keep", _C, "        if self.token.old_value != contextvars.Token.MISSING:", "        if self.token.old_value is not contextvars.Token.MISSING:"),
]
