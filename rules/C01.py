"""C01 — the schedule runs step by step on all clients under any message timing (DESIGN.md section 4, C01).

Decides the protocol *skeleton* every interleaving relies on; interleavings themselves are not enumerated (that is model checking)."""
from __future__ import annotations

import ast

from sa import minieval as _me
from sa import pat as _pat
from sa import source
from sa.cfg import cfg_of, guards
from sa.classes import ActorModel, is_failure_send, is_logging_stmt
from sa.source import AnchorMissing, dotted, inline, is_self_attr, last_attr, local_defs, package_calls, params_of, short, u, walk_body
from sa.sym import parse_expr, rat_equal

_D = "esrally/driver/driver.py"


def _has_jump(loop):
    """break/continue/return directly controlling this loop (not nested function bodies)."""
    for n in source.walk_local(loop, include_root=False):
        if isinstance(n, (ast.Break, ast.Continue, ast.Return)):
            return True
    return False


def _call_fact(node, name, positive, stop=None):
    """a guard fact of node (polarity-insensitive: negations pushed in, conjunctions split) is the call `<x>.name(...)` (positive) / its negation."""
    for f in _pat.fact_nodes(node, stop=stop):
        if not positive and isinstance(f, ast.UnaryOp) and isinstance(f.op, ast.Not):
            f = f.operand
        elif not positive:
            continue
        if isinstance(f, ast.Call) and last_attr(f.func) == name:
            return True
    return False


def _is_not(f, pred):
    return isinstance(f, ast.UnaryOp) and isinstance(f.op, ast.Not) and pred(f.operand)


def complete_read_exemption_rule(chk, rid, drv):
    """AsyncExecutor.__call__: the shared complete event may end the request loop only for a task that does NOT itself complete its parent — several clients of the completing task
    share the worker's event and the first of them to finish sets it; its siblings must go on until their own runner / iteration count is done. Shared with C05 (each client executes
    exactly warm-up + measurement iterations)."""
    from sa import pat as _pat
    ex_call = drv.methods(drv.cls("AsyncExecutor")).get("__call__")
    if ex_call is None:
        raise AnchorMissing("AsyncExecutor.__call__")
    edefs = local_defs(ex_call)
    xloops = [n for n in walk_body(ex_call) if isinstance(n, (ast.AsyncFor, ast.For, ast.While))]
    if not xloops:
        raise AnchorMissing("request loop in AsyncExecutor.__call__")
    XL = xloops[0]

    def _reads_complete(e):
        return any(isinstance(x, ast.Call) and u(x.func) == "self.complete.is_set" for x in ast.walk(e))

    def _exempt(node):
        return any(inline(f_, edefs) in ("not self.task.completes_parent",) for f_ in _pat.fact_nodes(node, stop=XL))

    exits = [n for n in ast.walk(XL) if isinstance(n, (ast.Break, ast.Return)) and source.enclosing(n, (ast.AsyncFor, ast.For, ast.While)) is XL]
    n_ctl = 0
    for ex_ in exits:
        for t, pol in guards(ex_, stop=XL, path_sensitive=True):
            sites = []
            if _reads_complete(t):
                sites.append(source.enclosing_stmt(t))
            for nm in {x.id for x in ast.walk(t) if isinstance(x, ast.Name)}:
                for a_ in ast.walk(XL):
                    if isinstance(a_, ast.Assign) and any(isinstance(tg, ast.Name) and tg.id == nm for tg in a_.targets) and _reads_complete(a_.value):
                        sites.append(a_)
            for st_ in sites:
                n_ctl += 1
                ok = _exempt(st_)
                chk.ob(rid, "executor: the complete event ends the loop only when the task does not complete its parent itself", ok, st_,
                       f"`{short(st_, 70)}` controls `{type(ex_).__name__.lower()}` at line {ex_.lineno}" + ("" if ok else " for every task, including the completing task's own clients"),
                       key=f"{_D}:AsyncExecutor.__call__:complete-read:{short(st_, 60)}")
    if n_ctl == 0:
        chk.ob(rid, "executor: the request loop of a non-completing task ends on the complete event", False, XL, "no loop exit depends on complete.is_set(): completed-by never ends the other tasks",
               key=f"{_D}:AsyncExecutor.__call__:complete-read:none")


def executor_wiring(chk, rid, drv):
    """AsyncIoAdapter.run hands each executor the client id of ITS row pair (not the allocation's logical slot) and the worker's shared sampler — shared with C04 / C07:
    samples are filed under the id given here."""
    AD = drv.cls("AsyncIoAdapter")
    arun = drv.methods(AD).get("run")
    al = [n for n in walk_body(arun) if isinstance(n, ast.For) and is_self_attr(n.iter, "task_allocations")] if arun is not None else []
    if not al or not isinstance(al[0].target, ast.Tuple):
        raise AnchorMissing("`for client_id, task_allocation in self.task_allocations` in AsyncIoAdapter.run")
    cidv = al[0].target.elts[0].id
    exs = [n for n in ast.walk(al[0]) if isinstance(n, ast.Call) and last_attr(n.func) == "AsyncExecutor"]
    if not exs:
        raise AnchorMissing("AsyncExecutor(...) in AsyncIoAdapter.run")
    einit = drv.methods(drv.cls("AsyncExecutor")).get("__init__")
    b = source.bind_args(exs[0], einit)
    ep = [p for p in params_of(einit) if p != "self"]
    ok = u(b.get(ep[0])) == cidv and u(b.get("sampler")) == "self.sampler"
    chk.ob(rid, "executor is created with the client id of its row pair and the worker's sampler", ok, exs[0], f"{ep[0]}={u(b.get(ep[0]))} sampler={u(b.get('sampler'))}",
           key="esrally/driver/driver.py:AsyncIoAdapter.run:executor-client-id")
    st = [n for n in walk_body(einit) if isinstance(n, ast.Assign) and is_self_attr(n.targets[0]) and u(n.value) == ep[0]]
    chk.ob(rid, "executor keeps the id it was given", len(st) == 1 and st[0].targets[0].attr == ep[0], st[0] if st else einit, "", key="esrally/driver/driver.py:AsyncExecutor.__init__:client-id")


def _attr_from_param(init):
    """`self.<attr> = <param>` stores of a constructor: attr -> parameter name."""
    ps = set(params_of(init)) if init is not None else set()
    out = {}
    for n in (walk_body(init) if init is not None else []):
        if isinstance(n, ast.Assign) and len(n.targets) == 1 and is_self_attr(n.targets[0]) and isinstance(n.value, ast.Name) and n.value.id in ps:
            out[n.targets[0].attr] = n.value.id
    return out


def request_events(repo, drv):
    """Executor attributes that hold one of the worker's REQUEST events: a threading.Event the Worker creates for itself, sets in its own message handlers (a request that reaches the
    worker from outside: cancel, complete) and hands down Worker -> AsyncIoAdapter -> AsyncExecutor. Roles by data flow: constructor argument -> `self.<attr> = <param>`, hop by hop,
    at every construction site. Returns {executor attribute: (worker attribute, names of the Worker methods that set it)}; an attribute whose chain cannot be followed is not listed."""
    EX, AD, WK = drv.cls("AsyncExecutor"), drv.cls("AsyncIoAdapter"), drv.cls("Worker")
    einit, ainit, wm = drv.methods(EX).get("__init__"), drv.methods(AD).get("__init__"), drv.methods(WK)
    if einit is None or ainit is None or wm.get("__init__") is None:
        raise AnchorMissing("constructors of AsyncExecutor / AsyncIoAdapter / Worker")
    w_events = {}
    for n in walk_body(wm["__init__"]):
        if isinstance(n, ast.Assign) and len(n.targets) == 1 and is_self_attr(n.targets[0]) and isinstance(n.value, ast.Call) and last_attr(n.value.func) == "Event":
            setters = sorted(m.name for m in wm.values() for c in walk_body(m) if isinstance(c, ast.Call) and isinstance(c.func, ast.Attribute) and c.func.attr == "set"
                             and is_self_attr(c.func.value, n.targets[0].attr))
            if setters:
                w_events[n.targets[0].attr] = setters

    def hop(ctor_name, init, owner):
        """callee parameter -> the attribute of `owner` passed for it at every construction site (None when sites disagree or pass something else)"""
        sites = [c for c in package_calls(repo, ctor_name) if isinstance(c.func, (ast.Name, ast.Attribute))]
        out = {}
        for p in params_of(init):
            vals = set()
            for c in sites:
                a = source.bind_args(c, init).get(p)
                cls = source.enclosing_class(c)
                vals.add(a.attr if a is not None and is_self_attr(a) and cls is owner else None)
            if len(vals) == 1 and None not in vals:
                out[p] = vals.pop()
        return out

    ex_from_ad = hop("AsyncExecutor", einit, AD)
    ad_from_wk = hop("AsyncIoAdapter", ainit, WK)
    ad_attr = _attr_from_param(ainit)
    out = {}
    for a, p in _attr_from_param(einit).items():
        x = ex_from_ad.get(p)
        q = ad_attr.get(x) if x else None
        y = ad_from_wk.get(q) if q else None
        if y in w_events:
            out[a] = (y, w_events[y])
    return out


def completing_client_signal_rule(chk, rid, repo, drv):
    """F44. The task named by completed-by is done when ALL its clients are done (Driver.may_complete_current_task waits for every one of them), but the complete event is worker-wide:
    every other executor of the worker polls it and Worker.drive skips all rows up to the join point once it is set. Decided on values for the scenario
        the worker hosts clients 0 and 1 of the named task (2 clients); no cancel / complete request has reached the worker; client 0 finishes first:
    the conditions that control each `.set()` of that event in the executor are EXTRACTED and evaluated for client 0. If they all hold and read nothing but the task's static
    configuration, the client id and the request events, the decision is the same for the first client to finish as for the last: the first one ends the sibling tasks and the
    remaining clients / later rows of the named task itself. A condition that reads anything else (a count of outstanding clients shared by the executors, a per-worker tracker, ...)
    makes the decision depend on the other clients' progress and satisfies this necessary condition."""
    from sa.minieval import CannotEval, Record, ev as _ev
    EX = drv.cls("AsyncExecutor")
    ex_call = drv.methods(EX).get("__call__")
    if ex_call is None:
        raise AnchorMissing("AsyncExecutor.__call__")
    edefs = local_defs(ex_call)
    revs = request_events(repo, drv)
    # the completion event: the request event that the worker's CompleteCurrentTask handler sets
    done_attrs = [a for a, (_, setters) in revs.items() if "receiveMsg_CompleteCurrentTask" in setters]
    if len(done_attrs) != 1:
        raise AnchorMissing("executor attribute holding the worker's completion event (threading.Event set by Worker.receiveMsg_CompleteCurrentTask and passed Worker -> AsyncIoAdapter -> AsyncExecutor)")
    done = done_attrs[0]
    sets = [n for n in walk_body(ex_call) if isinstance(n, ast.Call) and isinstance(n.func, ast.Attribute) and n.func.attr == "set" and is_self_attr(n.func.value, done)]

    class _Quiet(ast.NodeTransformer):
        """no request has reached the worker: every request event polls as not set"""

        def visit_Call(self, n):
            self.generic_visit(n)
            if isinstance(n.func, ast.Attribute) and n.func.attr == "is_set" and not n.args and not n.keywords and is_self_attr(n.func.value) and n.func.value.attr in revs:
                return ast.copy_location(ast.Constant(value=False), n)
            return n

    env = {"self": Record(client_id=0, task=Record(completes_parent=True, any_completes_parent=False, clients=2))}
    fired = 0
    for s in sets:
        holds, open_ = [], []
        reached = True
        for t, pol in guards(s, path_sensitive=True):
            txt = u(source.inline_node(t, edefs))  # the condition as written, single-assignment locals resolved to what they were assigned from
            e = ast.fix_missing_locations(_Quiet().visit(source.inline_node(t, edefs)))
            try:
                v = bool(_ev(e, dict(env)))
            except CannotEval:
                open_.append(txt)
                continue
            if v != pol:
                reached = False
                break
            holds.append(txt if pol else f"not ({txt})")
        if not reached:
            continue  # e.g. the signal of a `completed-by: any` task: not executed by a client of a NAMED task
        fired += 1
        ok = bool(open_)
        chk.ob(rid, "executor: a client of the task named by completed-by that finishes before another client of that task does not set the worker-wide complete event on its own account",
               ok, s, (f"`{u(s)}` additionally depends on {open_}" if ok else
                       f"`{u(s)}` is executed by client 0 while client 1 of the task still runs: controlled only by {holds or ['nothing']}, which holds for the first client to finish "
                       "as for the last. The sibling tasks of this worker are cut and its remaining clients / later rows of the named task are skipped although the task is done only "
                       "when ALL its clients are (the coordinator waits for all of them)"),
               key=f"{_D}:AsyncExecutor.__call__:completing-client-sets-shared-event" + ("" if fired == 1 else f":{fired}"))
    if fired == 0:
        chk.ob(rid, "executor: a client of the task named by completed-by that finishes before another client of that task does not set the worker-wide complete event on its own account",
               True, ex_call, f"none of the {len(sets)} set site(s) of self.{done} is executed in this scenario", key=f"{_D}:AsyncExecutor.__call__:completing-client-sets-shared-event")


def run(chk):
    repo = chk.repo
    drv = repo.module(_D)
    chk.use(drv, repo.module("esrally/actor.py"))
    model = ActorModel(repo)
    chk.explanation = (
        "Decides the barrier/wake-up protocol skeleton: join points bracket every schedule element on all rows; Drive is constructed only behind the "
        "all-workers barrier and not-finished test; broadcasts iterate the full worker list; BenchmarkComplete exactly once behind barrier and finished; "
        "CompleteCurrentTask guarded by a per-step flag; the worker waits for its executor, ships samples and clears both events before JoinPointReached; "
        "the complete event is set only with cause; every normal exit of the wake-up chain has scheduled a successor (no dead end); "
        "the first of several co-located clients of the task named by completed-by must not set the worker-wide complete event on static conditions alone (O1.11, decided on values)."
    )
    chk.not_decided = ("races between the executor thread and the actor thread, FIFO/fairness assumptions, 'every client runs its task exactly once' as a count, "
                       "virtual time; the set of interleavings is not enumerated.")

    Driver = drv.cls("Driver")
    DA = model.actor("DriverActor")
    W = model.actor("Worker")
    TE = model.actor("TaskExecutionActor")
    dm = drv.methods(Driver)

    # ---- O1.1 join points bracket every element ---------------------------------------------------------
    chk.rule("O1.1", "the allocation-matrix builder appends one JoinPoint object to every client row before the schedule loop and, on every path of one "
             "iteration of the schedule loop, after all TaskAllocation appends; join point ids are distinct", 5,
             "any schedule with >= 2 elements: clients would run into the next element without synchronising (or deadlock at a missing join point on one row)")
    builder = None
    for f in drv.functions():
        names = {last_attr(c.func) for c in source.calls_in(f)}
        if "JoinPoint" in names and "TaskAllocation" in names:
            builder = f
    if builder is None:
        raise AnchorMissing("matrix builder (function constructing both JoinPoint and TaskAllocation)")
    g = cfg_of(builder)
    defs = local_defs(builder)
    sched_loops = [n for n in walk_body(builder) if isinstance(n, ast.For) and is_self_attr(n.iter, "schedule")]
    if not sched_loops:
        raise AnchorMissing("schedule loop (for ... in self.schedule) in the matrix builder")
    L = sched_loops[0]
    # row count: matrix = [None] * X
    rowcount = None
    matrix = None
    for n in walk_body(builder):
        if isinstance(n, ast.Assign) and isinstance(n.value, ast.BinOp) and isinstance(n.value.op, ast.Mult) and isinstance(n.targets[0], ast.Name) \
                and (isinstance(n.value.left, ast.List) != isinstance(n.value.right, ast.List)):
            matrix = n.targets[0].id
            rowcount = inline(n.value.left if isinstance(n.value.right, ast.List) else n.value.right, defs)
    if matrix is None:
        raise AnchorMissing("matrix allocation `[None] * <rows>` in the builder")

    def jp_broadcasts():
        out = []
        for n in walk_body(builder):
            if isinstance(n, ast.For) and isinstance(n.iter, ast.Call) and last_attr(n.iter.func) == "range" and len(n.iter.args) == 1 and isinstance(n.target, ast.Name):
                if inline(n.iter.args[0], defs) != rowcount or _has_jump(n):
                    continue
                lbody = [s_ for s_ in n.body if not is_logging_stmt(s_)]
                if len(lbody) != 1:
                    continue
                st = lbody[0]
                if isinstance(st, ast.Expr) and isinstance(st.value, ast.Call) and last_attr(st.value.func) == "append" and isinstance(st.value.func, ast.Attribute):
                    recv = st.value.func.value
                    if isinstance(recv, ast.Subscript) and isinstance(recv.value, ast.Name) and recv.value.id == matrix and isinstance(recv.slice, ast.Name) and recv.slice.id == n.target.id:
                        arg = st.value.args[0] if st.value.args else None
                        if isinstance(arg, ast.Name):
                            out.append((n, arg.id))
        return out

    bcs = jp_broadcasts()
    jp_assigns = [n for n in walk_body(builder) if isinstance(n, ast.Assign) and isinstance(n.value, ast.Call) and last_attr(n.value.func) == "JoinPoint" and isinstance(n.targets[0], ast.Name)]
    jp_vars = {a.targets[0].id for a in jp_assigns}
    bcs = [(n, v) for n, v in bcs if v in jp_vars]
    Lh = g.node_of(L)
    pre = [(n, v) for n, v in bcs if L not in list(source.ancestors(n))]
    inl = [(n, v) for n, v in bcs if L in list(source.ancestors(n))]
    ok = bool(pre) and g.dominated_by_nodes(Lh, [g.node_of(n) for n, _ in pre])
    chk.ob("O1.1", "initial join point on every row before the schedule loop", ok, pre[0][0] if pre else builder,
           f"{len(pre)} broadcast loop(s) over range({rowcount}) before the schedule loop")
    starts = g.edge_targets(Lh, "iter")
    inl_nodes = [g.node_of(n) for n, _ in inl]
    ok = bool(inl) and all(Lh.id not in g.reachable([s], avoid=inl_nodes) for s in starts)
    path = None
    if inl and not ok:
        p = g.find_path(starts[0], Lh, avoid=inl_nodes)
        path = g.describe_path(p) if p else None
    chk.ob("O1.1", "join point on every row after every schedule element", ok, inl[0][0] if inl else L,
           f"{len(inl)} broadcast loop(s) inside the schedule loop" + ("" if ok else " — an iteration can reach the back edge without appending the join point to all rows"), path=path)
    # the join point appended in the loop is constructed in the same iteration (fresh object) before the broadcast
    for n, v in inl:
        fresh = [g.node_of(a) for a in jp_assigns if a.targets[0].id == v and L in list(source.ancestors(a))]
        ok = bool(fresh) and all(g.node_of(n).id not in g.reachable(starts, avoid=fresh) for _ in [0])
        chk.ob("O1.1", "a fresh JoinPoint per schedule element", ok, n, f"variable {v}")
    # TaskAllocation appends precede the broadcast within an iteration
    ta_appends = []
    for n in walk_body(builder):
        if isinstance(n, ast.Call) and last_attr(n.func) == "append" and n.args and isinstance(n.func, ast.Attribute) and isinstance(n.func.value, ast.Subscript) \
                and isinstance(n.func.value.value, ast.Name) and n.func.value.value.id == matrix:
            a = n.args[0]
            val = defs.get(a.id) if isinstance(a, ast.Name) else a
            if isinstance(val, ast.Call) and last_attr(val.func) == "TaskAllocation":
                ta_appends.append(n)
    if not ta_appends:
        raise AnchorMissing("TaskAllocation append into the matrix")
    ok = all(not g.path_exists(b, g.node_of(t), avoid=[Lh]) for b in inl_nodes for t in ta_appends)
    chk.ob("O1.1", "no task allocation after the element's join point", ok, ta_appends[0], f"{len(ta_appends)} TaskAllocation append site(s)")
    # distinct ids
    for a in jp_assigns:
        idv = a.value.args[0] if a.value.args else None
        ok = False
        if isinstance(idv, ast.Name):
            incs = [n for n in walk_body(builder) if isinstance(n, ast.AugAssign) and isinstance(n.target, ast.Name) and n.target.id == idv.id
                    and isinstance(n.op, ast.Add) and source.is_const(n.value, 1)]
            an = g.node_of(a)
            # every path from this construction to the next construction (or exit) passes an increment
            others = [g.node_of(x) for x in jp_assigns]
            r = g.reachable([an] if False else [g.nodes[y] for y, _ in g.succ[an.id]], avoid=[g.node_of(i) for i in incs], edge_ok=g.normal_edge)
            ok = bool(incs) and not any(o.id in r for o in others)
        chk.ob("O1.1", "join point ids are distinct (id incremented between constructions)", ok, a, short(a, 70))

    # ---- O1.2 barrier guards Drive ----------------------------------------------------------------------------
    chk.rule("O1.2", "Drive is constructed only in the routine reached from the JoinPointReached handler, behind the true edge of "
             "`arrival counter == len(workers)` and the false edge of the finished test; the counter is incremented exactly once per arrival", 6,
             "two workers, the second slower: the first would be driven into the next element early")
    jr = dm.get("joinpoint_reached")
    mv = dm.get("move_to_next_task")
    if jr is None or mv is None:
        raise AnchorMissing("Driver.joinpoint_reached / move_to_next_task")
    gjr = cfg_of(jr)
    drive_sites = package_calls(repo, "Drive")
    if not drive_sites:
        raise AnchorMissing("construction of Drive")
    for c in drive_sites:
        fn = source.enclosing_func(c)
        cls = source.enclosing_class(c)
        if fn is None:
            raise AnchorMissing(f"function enclosing the construction of Drive at {source.loc(c)}")
        ok = cls is not None and cls.name == "DriverActor" and not fn.name.startswith("receive")
        callers = [x for x in package_calls(repo, fn.name) if source.enclosing_func(x) is not fn]
        ok = ok and bool(callers) and all(source.enclosing_func(x) is mv for x in callers)
        chk.ob("O1.2", f"Drive() constructed in {cls.name if cls else '?'}.{fn.name}, called only from Driver.move_to_next_task", ok, c,
               f"callers: {sorted({source.qualname(x) for x in callers})}")
    mv_calls = [x for x in package_calls(repo, "move_to_next_task")]
    ok = bool(mv_calls) and all(source.enclosing_func(x) is jr for x in mv_calls)
    chk.ob("O1.2", "move_to_next_task called only from joinpoint_reached", ok, mv_calls[0] if mv_calls else mv, f"{len(mv_calls)} call site(s)")
    jr_calls = package_calls(repo, "joinpoint_reached")
    ok = bool(jr_calls) and all(source.enclosing_func(x).name == "receiveMsg_JoinPointReached" for x in jr_calls)
    chk.ob("O1.2", "joinpoint_reached called only from the JoinPointReached handler", ok, jr_calls[0] if jr_calls else jr, f"{len(jr_calls)} call site(s)")
    # barrier counter
    incs = [n for n in walk_body(jr) if isinstance(n, ast.AugAssign) and is_self_attr(n.target) and isinstance(n.op, ast.Add) and source.is_const(n.value, 1)]
    counter = None
    barrier_tests = []
    for n in walk_body(jr):
        if isinstance(n, ast.If) and isinstance(n.test, ast.Compare) and len(n.test.ops) == 1:
            l, r = n.test.left, n.test.comparators[0]
            for a, b in ((l, r), (r, l)):
                if is_self_attr(a) and any(i.target.attr == a.attr and not guards(i) for i in incs):
                    counter = a.attr
                    barrier_tests.append(n)
    if counter is None or not barrier_tests:
        raise AnchorMissing("barrier test on the arrival counter (attribute incremented by one per arrival) in joinpoint_reached")
    bt = barrier_tests[0]
    left_is_counter = is_self_attr(bt.test.left, counter)
    other = bt.test.comparators[0] if left_is_counter else bt.test.left
    # the test is evaluated for arrived in (1, 2, 3) of 3 workers: it must separate exactly `arrived == 3`; the arm taken then is the barrier-closed arm
    _cmp = _me._CMP.get(type(bt.test.ops[0])) if type(bt.test.ops[0]) in (ast.Eq, ast.NotEq, ast.Lt, ast.LtE, ast.Gt, ast.GtE) else None
    res = [(_cmp(a, 3) if left_is_counter else _cmp(3, a)) for a in (1, 2, 3)] if _cmp is not None else [None] * 3
    ok = u(other) == "len(self.workers)" and res[0] == res[1] and res[1] != res[2] and None not in res
    closed_pol = bool(res[2])
    chk.ob("O1.2", "barrier: arrival counter == len(workers)", ok, bt, f"`{u(bt.test)}`" + ("" if ok else " lets the step close before all workers arrived (or never)"))
    cinc = [i for i in incs if i.target.attr == counter]
    btn = gjr.node_of(bt)
    ok = len(cinc) == 1 and gjr.dominated_by_nodes(btn, [gjr.node_of(cinc[0])]) and not guards(cinc[0])
    chk.ob("O1.2", "arrival counter incremented exactly once per arrival, before the barrier test", ok, cinc[0] if cinc else jr, f"{len(cinc)} increment(s) of self.{counter}")
    others = [n for m in dm.values() for n in walk_body(m) if isinstance(n, (ast.Assign, ast.AugAssign)) and
              any(is_self_attr(t, counter) for t in (n.targets if isinstance(n, ast.Assign) else [n.target])) and m.name not in ("__init__",) and n not in cinc]
    for o in others:
        ok = isinstance(o, ast.Assign) and source.is_const(o.value, 0) and source.enclosing_func(o) is jr and any(t is bt.test and pol == closed_pol for t, pol in guards(o))
        chk.ob("O1.2", "arrival counter reset only when the barrier closes", ok, o, short(o, 60))
    for x in mv_calls:
        gs = guards(x)
        in_barrier = any(t is bt.test and pol == closed_pol for t, pol in gs)
        not_finished = _call_fact(x, "finished", False)
        chk.ob("O1.2", "next element driven only behind barrier and not finished", in_barrier and not_finished, x,
               f"guards: {[(u(t), pol) for t, pol in gs]}")

    # ---- O1.2b broadcasts cover the whole worker list ----------------------------------------------------------------
    chk.rule("O1.2b", "the loops that send Drive and CompleteCurrentTask iterate the complete worker list with no filter, break, continue or return; "
             "each worker's start time is read from the per-step entry of that worker's index", 3,
             ">= 2 workers: one worker is never driven / never told to complete, so the barrier never closes")
    for fname, sendname in (("move_to_next_task", "drive_at"), ("may_complete_current_task", "complete_current_task")):
        fn = dm.get(fname)
        if fn is None:
            raise AnchorMissing(f"Driver.{fname}")
        for c in source.calls_in(fn, attr=sendname):
            loop = source.enclosing(c, ast.For)
            ok = False
            detail = "not inside a loop over the workers"
            if loop is not None:
                it = loop.iter
                full = is_self_attr(it, "workers") or (isinstance(it, ast.Call) and last_attr(it.func) == "enumerate" and len(it.args) == 1 and is_self_attr(it.args[0], "workers"))
                cond = guards(c, stop=loop)
                ok = full and not _has_jump(loop) and not cond
                detail = f"for ... in {u(it)}" + ("" if full else " (not the complete worker list)") + (" with jump statements" if _has_jump(loop) else "") + (f" under {[(u(t), p) for t, p in cond]}" if cond else "")
                if ok and sendname == "drive_at" and isinstance(it, ast.Call):
                    # per-worker timestamp from the per-step map at the enumerate index
                    idx = loop.target.elts[0].id if isinstance(loop.target, ast.Tuple) and isinstance(loop.target.elts[0], ast.Name) else None
                    subs = [n for n in ast.walk(loop) if isinstance(n, ast.Subscript) and isinstance(n.slice, ast.Name) and n.slice.id == idx and isinstance(n.value, ast.Name)
                            and n.value.id in params_of(fn)]
                    ok = bool(subs)
                    detail += f"; start time from {u(subs[0]) if subs else 'no per-worker entry'}"
            chk.ob("O1.2b", f"{fname}: {sendname} to every worker", ok, c, detail)
    # the map key is the worker id of the arriving worker
    stores = [n for n in walk_body(jr) if isinstance(n, ast.Assign) and isinstance(n.targets[0], ast.Subscript) and is_self_attr(n.targets[0].value)
              and isinstance(n.targets[0].slice, ast.Name) and n.targets[0].slice.id == params_of(jr)[1]]
    chk.ob("O1.2b", "per-step map keyed by the arriving worker's id", bool(stores) and not guards(stores[0]), stores[0] if stores else jr, short(stores[0], 70) if stores else "")
    stepmap = stores[0].targets[0].value.attr if stores else None
    # the entry is (worker's own timestamp, coordinator's receive time); the start time sent back is worker_ts + (start - received): the same pair order at writer and reader
    ok = False
    detail = ""
    if stores and isinstance(stores[0].value, ast.Tuple) and len(stores[0].value.elts) == 2:
        e0, e1 = stores[0].value.elts
        w_ok = isinstance(e0, ast.Name) and e0.id == params_of(jr)[2] and isinstance(e1, ast.Call) and (dotted(e1.func) or "").startswith("time.")
        dcall = source.calls_in(mv, attr="drive_at")
        unp = [n for n in walk_body(mv) if isinstance(n, ast.Assign) and isinstance(n.targets[0], ast.Tuple) and len(n.targets[0].elts) == 2 and isinstance(n.value, ast.Subscript)
               and isinstance(n.value.value, ast.Name) and n.value.value.id in params_of(mv) and all(isinstance(t, ast.Name) for t in n.targets[0].elts)]
        if w_ok and dcall and unp and len(dcall[0].args) >= 2:
            A, B = (t.id for t in unp[0].targets[0].elts)
            mdefs = local_defs(mv)
            inl = source.inline_node(dcall[0].args[1], mdefs, no_calls=True)
            free = {n.id for n in ast.walk(inl) if isinstance(n, ast.Name)} - {A, B}
            if len(free) == 1:
                S = next(iter(free))
                sdef = mdefs.get(S)
                ok = rat_equal(inl, parse_expr(f"{A} + {S} - {B}")) and sdef is not None and any(isinstance(x, ast.Call) and (dotted(x.func) or "") == dotted(e1.func) for x in ast.walk(sdef))
            detail = f"written ({u(e0)}, {short(e1, 30)}), read as ({A}, {B}), start time sent: {u(inl)}"
        else:
            detail = "writer is not (worker timestamp parameter, clock read) or the reader does not unpack the pair"
    chk.ob("O1.2b", "start time == worker's timestamp + (coordinator's start - coordinator's receive time), pair read in the order written", ok, stores[0] if stores else jr, detail,
           key="esrally/driver/driver.py:Driver.move_to_next_task:start-time-pair")

    # ---- O1.3 completion exactly once ------------------------------------------------------------------------------
    chk.rule("O1.3", "BenchmarkComplete is constructed at one site reached only behind barrier-complete and finished; the step attribute is incremented exactly "
             "once before the finished test; finished compares it with len(join_points)-1; counter and per-step map are reset before any message is sent", 6,
             "last element, any worker count: completion reported early, twice or never")
    bc = package_calls(repo, "BenchmarkComplete")
    chk.ob("O1.3", "single construction site of BenchmarkComplete", len(bc) == 1, bc[0] if bc else drv.tree, f"{len(bc)} site(s)")
    for c in bc:
        fn = source.enclosing_func(c)
        if fn is None:
            raise AnchorMissing(f"function enclosing the construction of BenchmarkComplete at {source.loc(c)}")
        callers = [x for x in package_calls(repo, fn.name) if source.enclosing_func(x) is not fn and source.enclosing_class(x) is not None
                   and source.enclosing_class(x).name in ("Driver",)]
        ok = bool(callers) and all(source.enclosing_func(x) is jr for x in callers)
        for x in callers:
            gs = guards(x)
            ok = ok and any(t is bt.test and pol == closed_pol for t, pol in gs) and _call_fact(x, "finished", True)
        chk.ob("O1.3", "completion only behind barrier and finished", ok, c, f"callers: {[source.loc(x) for x in callers]}")
    fin = dm.get("finished")
    if fin is None:
        raise AnchorMissing("Driver.finished")
    rets = [n for n in walk_body(fin) if isinstance(n, ast.Return)]
    stepattr = None
    ok = False
    if len(rets) == 1 and isinstance(rets[0].value, ast.Compare) and len(rets[0].value.ops) == 1:
        cmpn = rets[0].value
        l, r = cmpn.left, cmpn.comparators[0]
        if is_self_attr(l) and is_self_attr(r) and l.attr != r.attr and type(cmpn.ops[0]) in (ast.Eq, ast.NotEq, ast.Lt, ast.LtE, ast.Gt, ast.GtE):
            # roles, not operand positions: the total is the operand start_benchmark assigns, the step attribute is the operand joinpoint_reached writes
            sb = dm.get("start_benchmark")

            def _written(fn_, attr):
                return fn_ is not None and any(isinstance(n, (ast.Assign, ast.AugAssign)) and any(is_self_attr(t, attr) for t in (n.targets if isinstance(n, ast.Assign) else [n.target]))
                                               for n in walk_body(fn_))

            total_is_left = (_written(sb, l.attr) and not _written(sb, r.attr)) or (_written(jr, r.attr) and not _written(jr, l.attr))
            stepattr, total = (r.attr, l.attr) if total_is_left else (l.attr, r.attr)
            # the comparison is evaluated for step in (0, 1, 2) of total 2: it must hold exactly from step == total on
            _fc = _me._CMP[type(cmpn.ops[0])]
            shape = [bool(_fc(2, s) if total_is_left else _fc(s, 2)) for s in (0, 1, 2)] == [False, False, True]
            # total assigned from len(<allocator>.join_points) - 1
            for n in walk_body(sb) if sb else []:
                if isinstance(n, ast.Assign) and any(is_self_attr(t, total) for t in n.targets):
                    v = n.value
                    ok = shape and isinstance(v, ast.BinOp) and isinstance(v.op, ast.Sub) and source.is_const(v.right, 1) and isinstance(v.left, ast.Call) and last_attr(v.left.func) == "len" \
                        and bool(v.left.args) and last_attr(v.left.args[0]) == "join_points"
    chk.ob("O1.3", "finished: step == len(join_points) - 1", ok, fin, short(rets[0], 70) if rets else "")
    if stepattr:
        sincs = [n for m in dm.values() for n in walk_body(m) if isinstance(n, (ast.AugAssign, ast.Assign)) and
                 any(is_self_attr(t, stepattr) for t in (n.targets if isinstance(n, ast.Assign) else [n.target])) and m.name != "__init__"]
        ok = len(sincs) == 1 and isinstance(sincs[0], ast.AugAssign) and source.is_const(sincs[0].value, 1) and isinstance(sincs[0].op, ast.Add) and source.enclosing_func(sincs[0]) is jr \
            and [t is bt.test and pol == closed_pol for t, pol in guards(sincs[0])] == [True]
        chk.ob("O1.3", "step attribute incremented exactly once per closed barrier", ok, sincs[0] if sincs else jr, f"{len(sincs)} writer(s) of self.{stepattr} outside __init__")
        if sincs:
            # every evaluation of finished() in the handler routine (whatever the polarity / form of the test it feeds)
            fin_tests = [n for n in walk_body(jr) if isinstance(n, ast.Call) and last_attr(n.func) == "finished"]
            ok = bool(fin_tests) and all(gjr.dominated_by_nodes(gjr.node_of(t), [gjr.node_of(sincs[0])]) for t in fin_tests)
            chk.ob("O1.3", "step incremented before the finished test", ok, source.enclosing_stmt(fin_tests[0]) if fin_tests else jr, "")
    # resets before any message
    resets = [n for n in walk_body(jr) if isinstance(n, ast.Assign) and any(is_self_attr(t, counter) or (stepmap and is_self_attr(t, stepmap)) for t in n.targets)
              and any(t is bt.test and pol == closed_pol for t, pol in guards(n))]
    msg_calls = [c for c in source.calls_in(jr) if last_attr(c.func) in ("move_to_next_task", "on_benchmark_complete", "on_task_finished", "drive_at", "send")]
    ok = len(resets) >= 2 and all(gjr.dominated_by_nodes(gjr.node_of(c), [gjr.node_of(r)]) for c in msg_calls for r in resets)
    chk.ob("O1.3", "arrival counter and per-step map reset before any message is sent", ok, resets[0] if resets else jr, f"{len(resets)} reset(s), {len(msg_calls)} sending call(s)")
    # the local copy handed to move_to_next_task is taken before the reset
    for x in mv_calls:
        a = x.args[0] if x.args else None
        ok = isinstance(a, ast.Name) and a.id in local_defs(jr) and stepmap and is_self_attr(local_defs(jr)[a.id], stepmap)
        chk.ob("O1.3", "the closed step's arrival map is handed to move_to_next_task", bool(ok), x, short(x, 60))

    # ---- O1.4 completed-by broadcast at most once per step ----------------------------------------------------------------------
    chk.rule("O1.4", "every CompleteCurrentTask broadcast is controlled by the negation of one boolean attribute that is set on the same path before the "
             "broadcast and cleared only when the barrier closes", 4,
             ">= 3 workers arriving one by one after the completing task: the broadcast is repeated, cutting short the next element")
    mc = dm.get("may_complete_current_task")
    gmc = cfg_of(mc)
    cc_calls = source.calls_in(mc, attr="complete_current_task")
    if not cc_calls:
        raise AnchorMissing("complete_current_task call in may_complete_current_task")
    flag = None
    for c in cc_calls:
        # guard facts (negations pushed in, conjunctions split, either arm): `not self.<flag>`
        negs = [f_.operand.attr for f_ in _pat.fact_nodes(c) if _is_not(f_, is_self_attr)]
        f0 = negs[0] if negs else None
        flag = flag or f0
        sets = [n for n in walk_body(mc) if isinstance(n, ast.Assign) and any(is_self_attr(t, f0) for t in n.targets) and source.is_const(n.value, True)] if f0 else []
        cn = gmc.node_of(c)
        ok = f0 is not None and f0 == flag and any(gmc.dominated_by_nodes(cn, [gmc.node_of(s)]) for s in sets)
        chk.ob("O1.4", "broadcast guarded by `not <flag>` and flag set before it", ok, c, f"flag={f0}, {len(sets)} set site(s)")
    if flag:
        clears = [n for m in dm.values() for n in walk_body(m) if isinstance(n, ast.Assign) and any(is_self_attr(t, flag) for t in n.targets)
                  and not source.is_const(n.value, True) and m.name != "__init__"]
        ok = len(clears) >= 1 and all(source.enclosing_func(n) is jr and any(t is bt.test and pol == closed_pol for t, pol in guards(n)) and source.is_const(n.value, False) for n in clears)
        chk.ob("O1.4", "flag cleared only when the barrier closes", ok, clears[0] if clears else jr, f"{len(clears)} clearing store(s)")
    # key-domain agreement: the per-step arrival map is keyed by WORKER id; the pending test must map client -> worker first
    if stepmap:
        lookups = []
        for n in walk_body(mc):
            if isinstance(n, ast.Compare) and len(n.ops) == 1 and isinstance(n.ops[0], (ast.In, ast.NotIn)) and is_self_attr(n.comparators[0], stepmap):
                lookups.append((n, n.left))
            elif isinstance(n, ast.Subscript) and is_self_attr(n.value, stepmap):
                lookups.append((n, n.slice))
        mdefs = local_defs(mc)
        # loop-local single assignments too
        for n in walk_body(mc):
            if isinstance(n, ast.Assign) and len(n.targets) == 1 and isinstance(n.targets[0], ast.Name):
                mdefs.setdefault(n.targets[0].id, n.value)
        for n, key in lookups:
            src = mdefs.get(key.id) if isinstance(key, ast.Name) else key
            ok = isinstance(src, ast.Subscript) and is_self_attr(src.value, "clients_per_worker")
            chk.ob("O1.4", "arrival map (keyed by worker id) consulted with the client's worker id", ok, n,
                   f"key `{u(key)}` = `{u(src) if src is not None else '?'}`" + ("" if ok else " is not a worker id obtained from clients_per_worker[client]: with several clients per worker the test reads the wrong entry"))
        if not lookups:
            chk.ob("O1.4", "pending test for the completing task's clients", False, mc, "the completed-by branch never consults the per-step arrival map")
    # the decision to broadcast depends on nothing but (which join points complete their parent, already sent?, is a client of the completing task still pending?):
    # every condition on a path to a broadcast reads only those quantities
    jl_names = sorted({t.id for n in walk_body(mc) if isinstance(n, ast.Assign) for t in n.targets if isinstance(t, ast.Name) and "joinpoints_completing_parent" in t.id})
    pend_names = sorted({n.func.value.id for n in walk_body(mc) if isinstance(n, ast.Call) and last_attr(n.func) == "append" and isinstance(n.func.value, ast.Name)
                         and any(isinstance(f_, ast.Compare) and stepmap and any(is_self_attr(x, stepmap) for x in ast.walk(f_)) for f_ in _pat.fact_nodes(n))})
    allowed = set(jl_names) | set(pend_names) | ({f"self.{flag}"} if flag else set())
    for c in cc_calls:
        extra = []
        for f_ in _pat.fact_nodes(c, path_sensitive=True):
            reads = {u(x) for x in ast.walk(f_) if (isinstance(x, ast.Name) and x.id not in ("len", "self", "any", "all", "bool")) or (isinstance(x, ast.Attribute) and isinstance(x.value, ast.Name) and x.value.id == "self")}
            if not reads <= allowed:
                extra.append(u(f_))
        chk.ob("O1.4", "the broadcast depends only on (completing join points, already sent, pending clients of the completing task)", not extra, c,
               f"quantities {sorted(allowed)}" + ("" if not extra else f"; further condition(s) {extra}: for some layout of clients on workers the element is never completed (or completed early)"),
               key=f"{_D}:Driver.may_complete_current_task:broadcast-conditions:{cc_calls.index(c)}")
    # the join point object is shared by all rows, so its attributes describe the ELEMENT, not the arriving client: with 'any' an arrival counts only when the arriving client
    # executes a task of the element (a worker whose clients idle through the element reaches the join point at once). Decided on values: the selecting comprehension is evaluated
    # for an arrival of client 0 / client 1 at a join point whose element is executed by client 0 only, and at a join point of an element without completed-by.
    from sa.minieval import CannotEval as Unknown, Record, ev as _ev
    tp = params_of(mc)[1]
    any_sel = [n for n in walk_body(mc) if isinstance(n, ast.Assign) and len(n.targets) == 1 and isinstance(n.targets[0], ast.Name) and n.targets[0].id.startswith("any_")
               and isinstance(n.value, (ast.ListComp, ast.GeneratorExp))]
    if not any_sel:
        raise AnchorMissing("selection of arrivals that complete an 'any' element in may_complete_current_task")
    jp_any = Record(any_task_completes_parent=[0], clients_executing_completing_task=[], num_clients_executing_completing_task=0, preceding_task_completes_parent=False)
    jp_none = Record(any_task_completes_parent=[], clients_executing_completing_task=[], num_clients_executing_completing_task=0, preceding_task_completes_parent=False)
    cases = [("client 0 (executes a task of the element)", Record(client_id=0, task=jp_any), 1), ("client 1 (idle in the element)", Record(client_id=1, task=jp_any), 0),
             ("client 0 at a join point without completed-by", Record(client_id=0, task=jp_none), 0)]
    for what, arr, want in cases:
        try:
            got = len(list(_ev(any_sel[0].value, {tp: [arr]})))
        except Unknown as e:
            chk.unknown("O1.4", f"'any' selection for {what}: cannot evaluate: {e}", any_sel[0])
            continue
        chk.ob("O1.4", f"'any': arrival of {what} {'completes' if want else 'does not complete'} the element", got == want, any_sel[0],
               f"`{short(any_sel[0].value, 110)}` selects {got} arrival(s)" + ("" if got == want else ": the element is completed although none of its tasks has finished (every request after the first is cut)" if got > want else ": the element never completes"),
               key=f"{_D}:Driver.may_complete_current_task:any-arrival:{what.split(' (')[0]}:{want}")
    mc_calls = package_calls(repo, "may_complete_current_task")
    ok = bool(mc_calls) and all(source.enclosing_func(x) is jr and any(t is bt.test and pol != closed_pol for t, pol in guards(x)) for x in mc_calls)
    chk.ob("O1.4", "completion check only while the barrier is still open", ok, mc_calls[0] if mc_calls else mc, "")
    ccs = package_calls(repo, "CompleteCurrentTask")
    for c in ccs:
        fn = source.enclosing_func(c)
        if fn is None:
            raise AnchorMissing(f"function enclosing the construction of CompleteCurrentTask at {source.loc(c)}")
        callers = [x for x in package_calls(repo, fn.name) if source.enclosing_func(x) is not fn]
        ok = all(source.enclosing_func(x) is mc for x in callers) and bool(callers)
        chk.ob("O1.4", "CompleteCurrentTask constructed only for may_complete_current_task", ok, c, f"callers {[source.qualname(x) for x in callers]}")

    from rules.C02 import joinpoint_lists_reset

    joinpoint_lists_reset(chk, "O1.4", drv)

    # ---- O1.5 worker side of the barrier ------------------------------------------------------------------------------------------
    chk.rule("O1.5", "JoinPointReached is sent only in the join-point branch of the worker's drive routine, after waiting for the executor future (if any), "
             "shipping samples and clearing both events (cancel, complete)", 5,
             "completed-by in element k cuts short element k+1 (stale complete event), or the step closes while requests are still running")
    wd = W.methods.get("drive")
    if wd is None:
        raise AnchorMissing("Worker.drive")
    gwd = cfg_of(wd)
    jps = package_calls(repo, "JoinPointReached")
    chk.ob("O1.5", "single construction site of JoinPointReached", len(jps) == 1 and source.enclosing_func(jps[0]) is wd, jps[0] if jps else wd, f"{len(jps)} site(s)")
    for c in jps:
        if source.enclosing_func(c) is not wd:
            continue
        send = source.parent(c)
        if not isinstance(send, ast.Call):
            # the message is held in a local first: the send is the call that gets that local as an argument
            tg_ = send.targets[0].id if isinstance(send, ast.Assign) and len(send.targets) == 1 and isinstance(send.targets[0], ast.Name) else None
            uses = [n for n in walk_body(wd) if isinstance(n, ast.Call) and last_attr(n.func) == "send" and tg_ is not None and any(isinstance(a, ast.Name) and a.id == tg_ for a in n.args)]
            if not uses:
                raise AnchorMissing("send(...) of the JoinPointReached message constructed in Worker.drive")
            send = uses[0]
        sn = gwd.node_of(send)
        gs = guards(send)
        fs_ = _pat.fact_nodes(send)
        ok = len(fs_) == 1 and isinstance(fs_[0], ast.Call) and last_attr(fs_[0].func) == "at_joinpoint"
        chk.ob("O1.5", "sent only at a join point", ok, send, f"guards {[(u(t), p) for t, p in gs]}")
        res = [n for n in walk_body(wd) if isinstance(n, ast.Call) and last_attr(n.func) == "result" and isinstance(n.func, ast.Attribute) and is_self_attr(n.func.value, "executor_future")]
        ok = False
        if res:
            # only guarded by the join-point test and `future is not None` (guard facts: either arm, either polarity of the written test)
            def _jp(f_):
                return isinstance(f_, ast.Call) and last_attr(f_.func) == "at_joinpoint"

            extra = [f_ for f_ in _pat.fact_nodes(res[0]) if not (_jp(f_) or _is_not(f_, _jp)) and not _pat.is_(f_, "self.executor_future is not None", "None is not self.executor_future", "self.executor_future")]
            ok = not extra and not gwd.path_exists(sn, gwd.node_of(res[0]), avoid=[gwd.entry])
            # the send is not reachable from the arm of the future test that holds result() without passing result()
            ift = source.enclosing(res[0], ast.If)
            if ok and ift is not None:
                tnode = gwd.node_of(ift)
                arm = "true" if any(res[0] in list(ast.walk(s_)) for s_ in ift.body) else "false"
                tstarts = gwd.edge_targets(tnode, arm)
                ok = all(sn.id not in gwd.reachable([s], avoid=[gwd.node_of(res[0])]) for s in tstarts)
        chk.ob("O1.5", "executor future awaited before the barrier message", ok, res[0] if res else send, "result() on the pending future precedes JoinPointReached" if ok else "the future is not (always) awaited")
        for what, pred in (("samples shipped", lambda n: isinstance(n, ast.Call) and last_attr(n.func) == "send_samples"),
                           ("cancel event cleared", lambda n: isinstance(n, ast.Call) and u(n.func) == "self.cancel.clear"),
                           ("complete event cleared", lambda n: isinstance(n, ast.Call) and u(n.func) == "self.complete.clear")):
            xs = [n for n in walk_body(wd) if pred(n)]
            ok = bool(xs) and gwd.dominated_by_nodes(sn, [gwd.node_of(x) for x in xs])
            chk.ob("O1.5", f"{what} before JoinPointReached", ok, xs[0] if xs else send, "")

    # ---- O1.6 complete is set only with cause ---------------------------------------------------------------------------------------
    chk.rule("O1.6", "the complete event is set only (a) in the CompleteCurrentTask handler when not at a join point, (b) in the executor's finally under "
             "completes_parent / any_completes_parent of its own task", 3,
             "a plain sequential task following a parallel element is cut short")
    sets = [n for m in repo.all_modules() for n in ast.walk(m.tree) if isinstance(n, ast.Call) and last_attr(n.func) == "set" and isinstance(n.func, ast.Attribute)
            and last_attr(n.func.value) == "complete"]
    if len(sets) < 2:
        raise AnchorMissing("set sites of the complete event")
    ex_call = drv.methods(drv.cls("AsyncExecutor")).get("__call__")
    edefs = local_defs(ex_call)
    for s in sets:
        fn = source.enclosing_func(s)
        cls = source.enclosing_class(s)
        gs = guards(s)
        if cls is not None and cls.name == "Worker" and fn.name == "receiveMsg_CompleteCurrentTask":
            continue  # decided below as a truth table over (at join point, Drive pending)
        elif cls is not None and cls.name == "AsyncExecutor" and fn is ex_call:
            in_finally = any(isinstance(a, ast.Try) and any(s in list(ast.walk(fb)) for fb in a.finalbody) for a in source.ancestors(s))
            # positive guard facts (either arm of the written test), locals resolved to what they were assigned from
            names = [inline(f_, edefs) for f_ in _pat.fact_nodes(s) if isinstance(f_, (ast.Name, ast.Attribute))]
            ok = in_finally and any(x in ("self.task.completes_parent", "self.task.any_completes_parent") for x in names)
            chk.ob("O1.6", "executor: complete.set() only for a task that completes its parent", ok, s, f"in finally={in_finally}, cause={names}")
        else:
            chk.ob("O1.6", f"complete.set() in {source.qualname(s)}", False, s, "set site outside the two sanctioned places")

    # both causes must be signalled by the executor (several clients of one worker share the event: a finished completing client must end its siblings)
    ex_sets = [s_ for s_ in sets if source.enclosing_func(s_) is ex_call]
    for cause in ("self.task.completes_parent", "self.task.any_completes_parent"):
        have = False
        for s_ in ex_sets:
            for f_ in _pat.fact_nodes(s_):
                if isinstance(f_, (ast.Name, ast.Attribute)) and cause in (inline(f_, edefs), u(f_)):
                    have = True
        chk.ob("O1.6", f"executor signals completion when {cause.split('.')[-1]}", have, ex_call,
               "complete.set() in the finally under this cause" if have else "no complete.set() for this cause: sibling clients in the same worker keep running, no worker reaches the join point, the race hangs",
               key=f"{_D}:AsyncExecutor.__call__:cause:{cause}")

    complete_read_exemption_rule(chk, "O1.6", drv)
    # the event is cleared at exactly one point of the step cycle: in the join-point branch of Worker.drive before JoinPointReached is sent. The coordinator sends
    # CompleteCurrentTask only for the step it has driven, so a request set after that point belongs to the running (or about to start) tasks; clearing it anywhere
    # else (wake-up handler, Drive handler, executor) loses a request that is never repeated.
    clears_ = [n for m_ in repo.all_modules() for n in ast.walk(m_.tree) if isinstance(n, ast.Call) and isinstance(n.func, ast.Attribute) and n.func.attr == "clear"
               and last_attr(n.func.value) == "complete"]
    wd_ = W.methods.get("drive")
    gwd = cfg_of(wd_)
    jp_send = [c for c in source.calls_in(wd_, attr="send") if len(c.args) >= 2 and isinstance(c.args[1], ast.Call) and last_attr(c.args[1].func) == "JoinPointReached"]
    if not clears_ or not jp_send:
        raise AnchorMissing("complete.clear() / send(JoinPointReached)")
    for n in clears_:
        fn = source.enclosing_func(n)
        ok = fn is wd_ and gwd.dominated_by_nodes(gwd.node_of(jp_send[0]), [gwd.node_of(n)]) and any(isinstance(f_, ast.Call) and u(f_.func) == "self.at_joinpoint" for f_ in _pat.fact_nodes(n))
        chk.ob("O1.6", "complete.clear() only at the join point, before JoinPointReached is sent", ok, n, f"in {source.qualname(n)}" + ("" if ok else
               ": a CompleteCurrentTask that arrived between Drive and this point is wiped; the worker runs tasks of an element that is already completed and the request is never repeated"),
               key=f"{_D}:{source.qualname(n)}:complete.clear")

    # Worker handler: truth table over (J = at join point, S = Drive received but start wake-up pending)
    from sa.sym import UnknownAtom, truth_table

    hct = W.methods.get("receiveMsg_CompleteCurrentTask")
    if hct is None:
        raise AnchorMissing("Worker.receiveMsg_CompleteCurrentTask")
    hsets = [s for s in sets if source.enclosing_func(s) is hct]

    def classify(n):
        if isinstance(n, ast.Call) and u(n.func) == "self.at_joinpoint":
            return "J"
        if is_self_attr(n, "start_driving"):
            return "S"
        return None

    from sa.sym import atoms_of
    import itertools

    free = []
    for s_ in hsets:
        for test, pol in guards(s_):
            for a in atoms_of(test):
                if classify(a) is None and u(a) not in free:
                    free.append(u(a))

    def classify2(n):
        c = classify(n)
        if c is not None:
            return c
        return u(n) if u(n) in free else None

    names = ["J", "S"] + free
    table_all, table_any = {}, {}
    for J in (False, True):
        for S in (False, True):
            results = []
            for fv in itertools.product([False, True], repeat=len(free)):
                env = dict(zip(names, (J, S) + fv))
                reach = False
                for s_ in hsets:
                    val = True
                    for test, pol in guards(s_):
                        rows = truth_table(test, names, classify2)
                        v = [r for e, r in rows if e == env][0]
                        val = val and (v == pol)
                    reach = reach or val
                results.append(reach)
            table_all[(J, S)] = all(results)
            table_any[(J, S)] = any(results)
    want = {(False, False): True, (False, True): True, (True, True): True, (True, False): False}
    for k, v in want.items():
        what = {(False, False): "running tasks: complete must be set", (False, True): "running tasks (flag irrelevant): complete must be set",
                (True, True): "Drive received, start wake-up pending: the request concerns the tasks about to start and must be remembered",
                (True, False): "waiting at the join point after finishing the step: the request is stale and must be ignored"}[k]
        ok = table_all[k] if v else not table_any[k]
        chk.ob("O1.6", f"CompleteCurrentTask handler at (join point={k[0]}, drive pending={k[1]})", ok, hct,
               f"{what}; handler sets complete: always={table_all[k]} sometimes={table_any[k]}" + (f" (depends on extra condition(s) {free})" if free else ""),
               key=f"{_D}:Worker.receiveMsg_CompleteCurrentTask:table{k}")

    # ---- O1.7 wake-up chain has no dead end ----------------------------------------------------------------------------------------------
    chk.rule("O1.7", "every normal-exit path of the wake-up chain routines (worker / task executor WakeupMessage handlers, Worker.drive, handlers that submit "
             "to the pool) has sent a protocol message, armed a wake-up or tail-called the drive routine", 6,
             "parallel element with capped clients and completed-by: the worker sits at a row with nothing scheduled and the race hangs")

    def progress_nodes(fn, g, cls):
        out = []
        fdefs = local_defs(fn)
        for n in walk_body(fn):
            if isinstance(n, ast.Call):
                nm = last_attr(n.func)
                payload = n.args[1] if nm == "send" and len(n.args) >= 2 else None
                if isinstance(payload, ast.Name):  # the message constructed into a (single-assignment) local first
                    payload = fdefs.get(payload.id)
                if nm == "wakeupAfter":
                    out.append(g.node_of(n))
                elif isinstance(payload, ast.Call) and last_attr(payload.func) in ("JoinPointReached", "BenchmarkFailure", "BenchmarkCancelled", "ReadyForWork", "WorkerIdle"):
                    out.append(g.node_of(n))
                elif nm == "drive" and isinstance(n.func, ast.Attribute) and isinstance(n.func.value, ast.Name) and n.func.value.id == "self":
                    out.append(g.node_of(n))
        return out

    chain = [(W, "receiveMsg_WakeupMessage"), (W, "drive"), (W, "receiveMsg_Drive"), (W, "receiveMsg_StartWorker"),
             (TE, "receiveMsg_WakeupMessage"), (TE, "receiveMsg_DoTask")]
    for cls, name in chain:
        fn = cls.methods.get(name)
        if fn is None:
            raise AnchorMissing(f"{cls.name}.{name}")
        gg = cfg_of(fn)
        pn = progress_nodes(fn, gg, cls)
        ok = bool(pn) and gg.must_pass(gg.entry, pn)
        path = None
        if not ok:
            p = gg.find_path(gg.entry, gg.exit, avoid=pn)
            path = gg.describe_path(p) if p else None
        chk.ob("O1.7", f"{cls.name}.{name}: no dead end", ok, fn, f"{len(pn)} progress site(s)" + ("" if ok else "; a normal-exit path schedules nothing: " + " ".join(path or [])),
               key=f"{_D}:{cls.name}.{name}:dead-end", path=path)
        for sub in [n for n in walk_body(fn) if isinstance(n, ast.Call) and last_attr(n.func) == "submit"]:
            wk = [gg.node_of(n) for n in walk_body(fn) if isinstance(n, ast.Call) and last_attr(n.func) == "wakeupAfter"]
            ok = bool(wk) and gg.must_pass(gg.node_of(sub), wk, normal_only=True)
            chk.ob("O1.7", f"{cls.name}.{name}: submit arms a wake-up", ok, sub, "")
    # start_driving flag: set by Drive, consumed (reset) before drive() in the wake-up handler
    wk = W.methods["receiveMsg_WakeupMessage"]
    gwk = cfg_of(wk)
    sd_tests = [n for n in walk_body(wk) if isinstance(n, ast.If) and any(is_self_attr(x, "start_driving") for x in ast.walk(n.test))]

    def _sd(n):
        """n executes only when start_driving was found set (guard fact, whichever arm / polarity the test is written in)"""
        return any(is_self_attr(f_, "start_driving") for f_ in _pat.fact_nodes(n))

    resets = [n for n in walk_body(wk) if isinstance(n, ast.Assign) and any(is_self_attr(x, "start_driving") for x in n.targets) and source.is_const(n.value, False) and _sd(n)]
    drives = [n for n in walk_body(wk) if isinstance(n, ast.Call) and u(n.func) == "self.drive" and _sd(n)]
    ok = bool(resets) and bool(drives)
    chk.ob("O1.7", "Drive -> start_driving -> wake-up -> drive() hand-over", ok, sd_tests[0] if sd_tests else wk, "flag consumed (reset) and drive() called" if ok else "start_driving is not consumed/reset before driving")
    dr = W.methods["receiveMsg_Drive"]
    ok = any(isinstance(n, ast.Assign) and any(is_self_attr(x, "start_driving") for x in n.targets) and source.is_const(n.value, True) for n in walk_body(dr))
    chk.ob("O1.7", "Drive handler sets start_driving", ok, dr, "")
    # the flag means "a start wake-up is pending": once it is set the handler must arm exactly that wake-up on every path and must not start driving itself
    gdr = cfg_of(dr)
    sets_ = [n for n in walk_body(dr) if isinstance(n, ast.Assign) and any(is_self_attr(x, "start_driving") for x in n.targets) and source.is_const(n.value, True)]
    wkn = [gdr.node_of(n) for n in walk_body(dr) if isinstance(n, ast.Call) and last_attr(n.func) == "wakeupAfter"]
    direct = [n for n in walk_body(dr) if isinstance(n, ast.Call) and u(n.func) == "self.drive"]
    ok = bool(sets_) and bool(wkn) and all(gdr.must_pass(gdr.node_of(s_), wkn, normal_only=True) for s_ in sets_) and not direct
    chk.ob("O1.7", "Drive handler: flag set => start wake-up armed on every path, no direct drive()", ok, direct[0] if direct else (sets_[0] if sets_ else dr),
           "" if ok else ("drive() is called with start_driving still set: the next polling wake-up is taken for the start wake-up and the worker advances while its clients are running"
                          if direct else "a path sets the flag without arming the wake-up"), key=f"{_D}:Worker.receiveMsg_Drive:flag-implies-wakeup")

    # ---- O1.9 index advance / join-point predicate ------------------------------------------------------------------------------------------
    chk.rule("O1.9", "the worker's row index advances by exactly one per read (current := next; next += 1) and `at join point` means ALL entries at the "
             "index are join points", 3, "a row is skipped or executed twice; a worker with a mixed row treats it as a join point")
    ca = W.methods.get("current_tasks_and_advance")
    if ca is None:
        raise AnchorMissing("Worker.current_tasks_and_advance")
    gca = cfg_of(ca)
    cur = [n for n in walk_body(ca) if isinstance(n, ast.Assign) and any(is_self_attr(t, "current_task_index") for t in n.targets)]
    nxt = [n for n in walk_body(ca) if isinstance(n, ast.AugAssign) and is_self_attr(n.target, "next_task_index")]
    ok = len(cur) == 1 and is_self_attr(cur[0].value, "next_task_index") and len(nxt) == 1 and isinstance(nxt[0].op, ast.Add) and source.is_const(nxt[0].value, 1) \
        and gca.dominated_by_nodes(gca.node_of(nxt[0]), [gca.node_of(cur[0])]) and not guards(cur[0]) and not guards(nxt[0])
    chk.ob("O1.9", "current := next; next += 1", ok, ca, f"{len(cur)} store(s) to current, {len(nxt)} increment(s) of next")
    reads = [n for n in walk_body(ca) if isinstance(n, ast.Call) and last_attr(n.func) == "tasks" and n.args and is_self_attr(n.args[0], "current_task_index")]
    ok = bool(reads) and bool(cur) and gca.dominated_by_nodes(gca.node_of(reads[0]), [gca.node_of(cur[0])])
    chk.ob("O1.9", "the row is read at the new current index", ok, reads[0] if reads else ca, "")
    # other writers of next_task_index / current_task_index
    for attr in ("next_task_index", "current_task_index"):
        ws = [n for m in W.methods.values() for n in walk_body(m) if isinstance(n, (ast.Assign, ast.AugAssign)) and
              any(is_self_attr(t, attr) for t in (n.targets if isinstance(n, ast.Assign) else [n.target])) and m.name not in ("__init__", "current_tasks_and_advance")]
        bad = [w for w in ws if not (isinstance(w, ast.Assign) and source.is_const(w.value, 0) and source.enclosing_func(w).name == "receiveMsg_StartWorker")]
        chk.ob("O1.9", f"no other writer of {attr}", not bad, bad[0] if bad else ca, f"{len(ws)} other store(s)")
    CA = drv.cls("ClientAllocations")
    ij = drv.methods(CA).get("is_joinpoint")
    ok = False
    if ij is not None:
        rets = [n for n in walk_body(ij) if isinstance(n, ast.Return)]
        if len(rets) == 1 and isinstance(rets[0].value, ast.Call) and last_attr(rets[0].value.func) == "all":
            ge = rets[0].value.args[0]
            ok = isinstance(ge, (ast.GeneratorExp, ast.ListComp)) and isinstance(ge.elt, ast.Call) and dotted(ge.elt.func) == "isinstance" and last_attr(ge.elt.args[1]) == "JoinPoint" and not ge.generators[0].ifs
    chk.ob("O1.9", "is_joinpoint: all entries are join points", ok, ij if ij is not None else CA, "")

    # ---- O1.10 every allocated (client, task) pair is run exactly once ------------------------------------------------------------------------------
    chk.rule("O1.10", "the worker's row view pairs every client with its own non-empty entry at the index; the executor adapter creates exactly one executor per (client, task allocation) "
             "of the row, unconditionally, and awaits all of them; one parameter source per task", 6,
             "a client's allocation is dropped (task runs with fewer clients) or started twice; a failed/late client is not awaited before the join point")
    tk = drv.methods(CA).get("tasks")
    ok = False
    if tk is not None:
        loops_ = [n for n in walk_body(tk) if isinstance(n, ast.For) and is_self_attr(n.iter, "allocations")]
        if loops_:
            Lr = loops_[0]
            av = Lr.target.id
            entry = [n for n in ast.walk(Lr) if isinstance(n, ast.Assign) and u(n.value) == f"{av}['tasks'][{params_of(tk)[1]}]"]
            apps = [n for n in ast.walk(Lr) if isinstance(n, ast.Call) and last_attr(n.func) == "append" and n.args and isinstance(n.args[0], ast.Call) and last_attr(n.args[0].func) == "ClientAllocation"]
            if entry and apps:
                ev_ = u(entry[0].targets[0])
                a0 = apps[0].args[0]
                # guard facts of the append (either arm, any conjunct order): `<entry> is not None`, and nothing else but the remove_empty parameter
                fs_ = _pat.fact_nodes(apps[0], stop=Lr)
                nn_ = [f_ for f_ in fs_ if _pat.is_(f_, "V_e is not None", "None is not V_e", binds={"e": ev_})]
                ok = [u(x) for x in a0.args] == [f"{av}['client_id']", ev_] and bool(nn_) and all(f_ in nn_ or (isinstance(f_, ast.Name) and f_.id == params_of(tk)[2]) for f_ in fs_) and not _has_jump(Lr)
    chk.ob("O1.10", "row view: (client id, its own entry) for every non-empty entry", ok, tk if tk is not None else CA, "")
    AD = drv.cls("AsyncIoAdapter")
    arun = drv.methods(AD).get("run")
    if arun is None:
        raise AnchorMissing("AsyncIoAdapter.run")
    al = [n for n in walk_body(arun) if isinstance(n, ast.For) and is_self_attr(n.iter, "task_allocations")]
    if not al:
        raise AnchorMissing("loop over self.task_allocations in AsyncIoAdapter.run")
    AL_ = al[0]
    exs = [n for n in ast.walk(AL_) if isinstance(n, ast.Call) and last_attr(n.func) == "AsyncExecutor"]
    ga0 = [n for n in walk_body(arun) if isinstance(n, ast.Call) and dotted(n.func) == "asyncio.gather"]
    awl = ga0[0].args[0].value.id if ga0 and ga0[0].args and isinstance(ga0[0].args[0], ast.Starred) and isinstance(ga0[0].args[0].value, ast.Name) else None
    aw = [n for n in ast.walk(AL_) if isinstance(n, ast.Call) and awl is not None and u(n.func) == f"{awl}.append"]
    ok = len(exs) == 1 and len(aw) == 1 and not guards(exs[0], stop=AL_) and not guards(aw[0], stop=AL_) and not _has_jump(AL_) and isinstance(AL_.target, ast.Tuple)
    chk.ob("O1.10", "one executor per allocation of the row, unconditionally", ok, AL_, f"executors={len(exs)} awaitables.append={len(aw)}")
    if exs and isinstance(AL_.target, ast.Tuple):
        cidv, tav = [t.id for t in AL_.target.elts]
        ldefs_ = {n.targets[0].id: n.value for n in ast.walk(AL_) if isinstance(n, ast.Assign) and len(n.targets) == 1 and isinstance(n.targets[0], ast.Name)}
        a = exs[0].args
        ok = u(a[0]) == cidv and u(source.inline_node(a[1], ldefs_)) == f"{tav}.task" and u(a[5]) == "self.cancel" and u(a[6]) == "self.complete" and u(a[4]) == "self.sampler"
        chk.ob("O1.10", "executor gets this client's id, this allocation's task and the worker's shared sampler / cancel / complete", ok, exs[0], short(exs[0], 120))
        sf_ = [n for n in ast.walk(AL_) if isinstance(n, ast.Call) and last_attr(n.func) == "schedule_for"]
        ok = bool(sf_) and u(sf_[0].args[0]) == tav and isinstance(sf_[0].args[1], ast.Subscript) and isinstance(sf_[0].args[1].value, ast.Name)
        ppt = sf_[0].args[1].value.id if ok else None
        chk.ob("O1.10", "schedule computed for this allocation with the task's (shared) parameter source", ok, sf_[0] if sf_ else AL_, "")
        ps_ = [n for n in ast.walk(AL_) if isinstance(n, ast.Call) and last_attr(n.func) == "operation_parameters"]
        ok = len(ps_) == 1 and ppt is not None and _pat.guarded(ps_[0], "E_k not in V_p", stop=AL_, binds={"p": ppt}) is not None
        chk.ob("O1.10", "one parameter source per task (created on first sight only)", ok, ps_[0] if ps_ else AL_, "")
    ga = [n for n in walk_body(arun) if isinstance(n, ast.Call) and dotted(n.func) == "asyncio.gather"]
    ok = len(ga) == 1 and awl is not None and [u(x) for x in ga[0].args] == [f"*{awl}"] and isinstance(source.parent(ga[0]), ast.Await)
    chk.ob("O1.10", "all executors of the row are awaited together", ok, ga[0] if ga else arun, "")

    # ---- O1.11 the named task is done when ALL its clients are done (F44) ---------------------------------------------------------------------------
    chk.rule("O1.11", "a client of the task named by completed-by sets the worker-wide complete event only under a condition that depends on the progress of the task's other clients: "
             "evaluated for the first of two co-located clients of the named task to finish, the conditions controlling the set must not all hold on static task configuration, "
             "client id and request events alone", 1,
             "parallel element with completed-by: <task>, the named task has >= 2 clients, one of them shares a worker with a client of a sibling task (or with another client / a later "
             "row of the named task): the sibling is cut, the later client is never started, as soon as the first co-located client of the named task is done")
    completing_client_signal_rule(chk, "O1.11", repo, drv)

    # ---- O1.8 advisory: executor honours the flags ---------------------------------------------------------------------------------------------
    loops = [n for n in walk_body(ex_call) if isinstance(n, ast.AsyncFor)]
    if loops:
        lb_ = [s_ for s_ in loops[0].body if not is_logging_stmt(s_)]
        first = lb_[0] if lb_ else loops[0]
        brk_ = [b_ for b_ in ast.walk(first) if isinstance(b_, ast.Break) and any(isinstance(f_, ast.Call) and u(f_.func).endswith("cancel.is_set") for f_ in _pat.fact_nodes(b_, stop=loops[0]))]
        if not (isinstance(first, ast.If) and brk_):
            chk.adv("O1.8", "the request loop does not start with `if cancel.is_set(): break`", first)
        if not any(isinstance(n, ast.Call) and u(n.func) == "self.complete.is_set" for n in ast.walk(loops[0])):
            chk.adv("O1.8", "the request loop never reads complete.is_set()", loops[0])


from sa.selftest import V  # noqa: E402

VARIANTS = [
    V("F20: 'any' arrival selected by the shared join point only", "break", _D, "if a.client_id in a.task.any_task_completes_parent]", "if a.task.any_task_completes_parent]", "O1.4"),
    V("F20 fix written with a set", "keep", _D, "if a.client_id in a.task.any_task_completes_parent]", "if a.client_id in set(a.task.any_task_completes_parent)]", "O1.4"),
    V("seed m11: worker count compared with a client count", "break", _D, "            current_join_point = joinpoints_completing_parent[0].task\n", "            current_join_point = joinpoints_completing_parent[0].task\n            if self.currently_completed < current_join_point.num_clients_executing_completing_task:\n                return\n", "O1.4"),
    V("seed m12: completion request cleared when the start wake-up fires", "break", _D, "            self.start_driving = False\n            self.drive()", "            self.start_driving = False\n            self.complete.clear()\n            self.drive()", "O1.6"),
    V("F1: skip branch schedules nothing", "break", _D, "                # nothing is executed for the skipped tasks so no wakeup is pending: continue with the next entry right away.\n                self.drive()\n", "", "O1.7"),
    V("no join point after schedule elements", "break", _D, "            for client_index in range(max_clients):\n                allocations[client_index].append(next_join_point)\n            join_point_id += 1\n        return allocations",
      "            join_point_id += 1\n        return allocations", "O1.1"),
    V("join point only for rows in use", "break", _D, "            for client_index in range(max_clients):\n                allocations[client_index].append(next_join_point)\n            join_point_id += 1\n        return allocations",
      "            for client_index in range(min(max_clients, task.clients)):\n                allocations[client_index].append(next_join_point)\n            join_point_id += 1\n        return allocations", "O1.1"),
    V("join point skipped for empty elements", "break", _D, "            # let all clients join after each task, then we go on\n            next_join_point =", "            if start_client_index == 0:\n                continue\n            next_join_point =", "O1.1"),
    V("barrier off by one", "break", _D, "        if self.currently_completed == len(self.workers):", "        if self.currently_completed == len(self.workers) - 1:", None),
    V("barrier with >= 1", "break", _D, "        if self.currently_completed == len(self.workers):", "        if self.currently_completed >= 1:", None),
    V("barrier <=", "break", _D, "        if self.currently_completed == len(self.workers):", "        if self.currently_completed <= len(self.workers):", "O1.2"),
    V("drive before finished test", "break", _D, "            self.logger.debug(\"Postprocessing samples...\")\n            self.post_process_samples()\n            if self.finished():",
      "            self.logger.debug(\"Postprocessing samples...\")\n            self.post_process_samples()\n            self.move_to_next_task(workers_curr_step)\n            if self.finished():", "O1.2"),
    V("drive only first worker", "break", _D, "        for worker_id, worker in enumerate(self.workers):\n            worker_ended_task_at", "        for worker_id, worker in enumerate(self.workers[:1]):\n            worker_ended_task_at", "O1.2b"),
    V("complete broadcast breaks after first", "break", _D, "                for worker in self.workers:\n                    self.driver_actor.complete_current_task(worker)\n            else:",
      "                for worker in self.workers:\n                    self.driver_actor.complete_current_task(worker)\n                    break\n            else:", "O1.2b"),
    V("counter not reset", "break", _D, "            # we can go on to the next step\n            self.currently_completed = 0\n", "            # we can go on to the next step\n", "O1.3"),
    V("step incremented twice", "break", _D, "            self.current_step += 1\n\n            self.logger.debug(\"Postprocessing samples...\")", "            self.current_step += 1\n            self.current_step += 1\n\n            self.logger.debug(\"Postprocessing samples...\")", "O1.3"),
    V("finished off by one", "break", _D, "        self.number_of_steps = len(allocator.join_points) - 1", "        self.number_of_steps = len(allocator.join_points)", "O1.3"),
    V("flag not set on any-broadcast", "break", _D, "            self.complete_current_task_sent = True\n            for worker in self.workers:\n                self.driver_actor.complete_current_task(worker)\n\n        # If we have",
      "            for worker in self.workers:\n                self.driver_actor.complete_current_task(worker)\n\n        # If we have", "O1.4"),
    V("flag not cleared at barrier", "break", _D, "            self.currently_completed = 0\n            self.complete_current_task_sent = False\n", "            self.currently_completed = 0\n", "O1.4"),
    V("flag cleared in may_complete", "break", _D, "        joinpoints_completing_parent = [a for a in task_allocations if a.task.preceding_task_completes_parent]\n",
      "        joinpoints_completing_parent = [a for a in task_allocations if a.task.preceding_task_completes_parent]\n        self.complete_current_task_sent = False\n", "O1.4"),
    V("complete event not cleared at join point", "break", _D, "            self.cancel.clear()\n            self.complete.clear()\n            self.executor_future = None", "            self.cancel.clear()\n            self.executor_future = None", "O1.5"),
    V("future not awaited", "break", _D, "            if self.executor_future is not None:\n                self.executor_future.result()\n            self.send_samples()", "            self.send_samples()", "O1.5"),
    V("complete set even at a stale join point", "break", _D, "        elif self.at_joinpoint():\n            self.logger.info(\n                \"Worker[%s] has received CompleteCurrentTask but is currently at join point at index [%d]. Ignoring.\",",
      "        elif False:\n            self.logger.info(\n                \"Worker[%s] has received CompleteCurrentTask but is currently at join point at index [%d]. Ignoring.\",", "O1.6"),
    V("F13: request between Drive and wake-up ignored", "break", _D, "        if self.at_joinpoint() and self.start_driving:", "        if False:", "O1.6"),
    V("seed m2: complete only if future running", "break", _D, "            self.logger.info(\n                \"Worker[%s] has received CompleteCurrentTask. Completing tasks at index [%d].\", str(self.worker_id), self.current_task_index\n            )\n            self.complete.set()",
      "            if self.executor_future is not None and self.executor_future.running():\n                self.complete.set()", "O1.6"),
    V("executor sets complete unconditionally", "break", _D, "            elif any_task_completes_parent:\n                self.logger.info(", "            else:\n                self.logger.info(", "O1.6"),
    V("no wakeup after submit", "break", _D, "                self.executor_future = self.pool.submit(executor)\n                self.wakeupAfter(datetime.timedelta(seconds=self.wakeup_interval))", "                self.executor_future = self.pool.submit(executor)", "O1.7"),
    V("no drive after future done", "break", _D, "                    self.executor_future = None\n                    self.drive()\n            else:", "                    self.executor_future = None\n            else:", "O1.7"),
    V("start_driving never reset", "break", _D, "            self.start_driving = False\n            self.drive()", "            self.drive()", "O1.7"),
    V("is_joinpoint any", "break", _D, "        return all(isinstance(t.task, JoinPoint) for t in self.tasks(task_index))", "        return any(isinstance(t.task, JoinPoint) for t in self.tasks(task_index))", "O1.9"),
    V("index advanced twice", "break", _D, "        self.next_task_index += 1\n        self.logger.debug(\"Worker[%d] is at task index", "        self.next_task_index += 2\n        self.logger.debug(\"Worker[%d] is at task index", "O1.9"),
    V("seed m1: client id looked up in the worker-keyed map", "break", _D, "                worker_id = self.clients_per_worker[client_id]\n                if worker_id not in self.workers_completed_current_step:", "                if client_id not in self.workers_completed_current_step:", "O1.4"),
    V("seed m3: no completion signal for any", "break", _D, "            elif any_task_completes_parent:\n                self.logger.info(", "            elif False:\n                self.logger.info(", "O1.6"),
    V("row view drops the first client", "break", _D, "        for allocation in self.allocations:\n            tasks_at_index = allocation[\"tasks\"][task_index]", "        for allocation in self.allocations[1:]:\n            tasks_at_index = allocation[\"tasks\"][task_index]", "O1.10"),
    V("executor only for the first allocation", "break", _D, "            awaitables.append(final_executor())", "            if not awaitables:\n                awaitables.append(final_executor())", "O1.10"),
    V("executor gets the wrong client id", "break", _D, "            async_executor = AsyncExecutor(\n                client_id, task,", "            async_executor = AsyncExecutor(\n                self.parent_worker_id, task,", "O1.10"),
    # preserving
    # F44 is a KNOWN finding (O1.11 falsified on the unchanged tree, listed by construct key): a respelling of the defective signal must keep the SAME key (stays listed, nothing new reported)
    V("F44 (known) respelled: event polled before it is set", "keep", _D, "                    self.task,\n                    self.client_id,\n                )\n                self.complete.set()\n            elif any_task_completes_parent:",
      "                    self.task,\n                    self.client_id,\n                )\n                if not self.complete.is_set():\n                    self.complete.set()\n            elif any_task_completes_parent:"),
    V("barrier with >=", "keep", _D, "        if self.currently_completed == len(self.workers):", "        if self.currently_completed >= len(self.workers):"),
    V("barrier operands swapped", "keep", _D, "        if self.currently_completed == len(self.workers):", "        if len(self.workers) == self.currently_completed:"),
    V("logging moved", "keep", _D, "            self.currently_completed = 0\n            self.complete_current_task_sent = False", "            self.complete_current_task_sent = False\n            self.currently_completed = 0"),
    V("walrus-free future check", "keep", _D, "            if self.executor_future is not None:\n                self.executor_future.result()", "            if self.executor_future:\n                self.executor_future.result()"),
    V("worker wake-up interval local", "keep", _D, "                self.executor_future = self.pool.submit(executor)\n                self.wakeupAfter(datetime.timedelta(seconds=self.wakeup_interval))",
      "                self.executor_future = self.pool.submit(executor)\n                interval = datetime.timedelta(seconds=self.wakeup_interval)\n                self.wakeupAfter(interval)"),
]
